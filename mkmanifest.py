#!/usr/bin/env python3
"""Regenerates MANIFEST.json from the table below (kept in one place so the manifest stays consistent)."""
import json, os

CLAIMED = {
 'C15': dict(
    technique='bounded symbolic model checking of the real C code: clang-14 IR -> ll2c -> CBMC 6.11 (SAT), abstract-array refinement oracle, native ASan replay of counterexamples',
    text='Bounded proof by symbolic execution of the real vnadata code (CBMC over C regenerated from clang IR on every run): for every enumerated '
         'history plan of 1..5 operations over dimensions 0..2 and frequencies 0..2, and for ALL indices (-1..n+1), ports, types and cell/'
         'frequency/impedance values within that plan, every getter at an arbitrary index agrees with an abstract typed-array model written from '
         'vnadata(3); CBMC bounds/pointer/overflow/leak checks are part of each verdict. Within the bound the verdict is for all values, not a sample; '
         'outside the enumerated plans and dimensions nothing is claimed.',
    note='Trusted: clang-14 front end, ll2c translator (validated against the repository test-suite), CBMC, the abstract model in harness/C15_hist.c, '
         'vasprintf stub; allocation does not fail; values are non-NaN; operation kinds and resize shapes are enumerated, not symbolic.',
    design='DESIGN.md section 4 / C15'),
 'C01': dict(
    technique='whole-flow symbolic execution of the real code (clang-14 IR of the whole library -> vf/irx.py: concrete control flow, checked heap, every measured value / reference value / error term a free complex symbol) with z3 deciding, row by row, that the linear systems vnacal_new_solve assembles are the documented M/S residual equations and that vnacal_apply builds the documented equation from the stored terms; counterexamples replayed as generated C programs against a clang ASan/UBSan build',
    text='Bounded proof (exact algebra, z3) on the real code.  CALIBRATE side: for every configuration of props/calcfg.py - all 8 error-term types x every accepted shape up to 2 ports (3 in thorough; a few 3-port ones in quick) x the '
         'determining standard set entered through single / double reflect, through, line, mapped matrix (with / without port map), m and a/b form, full and abbreviated matrices, swapped port order, other orders, other determining sets, '
         'predefined and user parameters - with every measured value, reference (a) value and parameter value a free complex symbol, the coefficient matrix and right-hand side that the real vnacal_new_add_* .. vnacal_new_solve hand to the '
         'linear solver consist exactly of the documented residual cells (soundness and completeness), and the stored error terms are the solver result with the unity term inserted, leakage terms equal to the documented averages and the E12 terms '
         'equal to the documented conversion.  APPLY side: fill_t8/u8/t16/u16/ue14 build exactly A = Ts - M\' Tx, B = M\' Tm - Ti (T), A = Ux M\' + Us, B = Um M\' + Ui (U), per-column UE14, for all terms free; _vnacal_layout places the blocks as documented.  '
         'With the measurement-error model on (sigma_nf, sigma_tr free positive symbols, sqrt uninterpreted) every assembled row is the documented residual times 1/sqrt(sigma_nf^2 + sigma_tr^2 |m|^2) of its own measurement cell.  vnacal_apply_m at any selection of the '
         'calibration frequencies (1-port types, 3-frequency calibrations) returns S satisfying the documented equation with the error terms of THAT frequency.  With C19 (the solvers are exact) calibrate-then-apply recovers S over the complex field; an exact rational '
         'end-to-end run per configuration witnesses determinacy.  Rounding and conditioning are outside.',
    note='Trusted: clang front end, vf/irparse.py / irsym.py / irx.py (interpreter, libc model), z3, the oracles written from vnacal_new(3) and vnacal_layout.h.  Linear solvers are hooked on the calibrate side (C19 covers LU; QR not covered).  '
         'Outside: TRL / unknown parameters, measurement-error weighting, several frequencies, interpolation in apply, > 3 ports, measure-zero sets where free values coincide (listed per path).',
    design='DESIGN.md section 3 / C01', cmd='python3-vt ./check C01', engine='irx+z3'),
 'C02': dict(
    technique='whole-flow symbolic execution of the real vnacal_new_solve / _vnacal_new_solve_auto (clang-14 IR -> vf/irx.py) with every measured value symbolic and the numeric kernels replaced by hooks returning arbitrary values (fresh symbols); every feasible combination of comparison outcomes is explored (z3 / witness points decide feasibility) for small iteration limits; counterexamples replayed natively (clang ASan/UBSan)',
    text='Bounded proof for ONE clause of C02 - the iteration limit bounds the work and failures are clean: for 7 calibrations with an unknown parameter (unknown reflect through the double- and single-reflect entry points, unknown line; T8, U8, TE10, UE14, E12; 1 frequency) '
         'and iteration limits 1..2 (3 in thorough), with every measured value a free complex symbol and every result of _vnacommon_qr / _vnacommon_qrsolve2 / _vnacommon_mldivide an arbitrary value, on every feasible combination of outcomes of the improvement, '
         'Marquardt and convergence tests: vnacal_new_solve returns; it linearises at most limit + 1 times; a failure is -1 with errno EDOM and exactly one message (failed to converge / singular), success installs a calibration; no access outside owned memory; '
         'nothing stays allocated after vnacal_new_free + vnacal_free; and each tolerance (a free positive symbol) occurs in the condition of some two-sided convergence decision - which holds for the parameter tolerance and FAILS for the error-term tolerance '
         '(recorded known finding: vnacal_new_set_et_tolerance has no effect; the check prints KNOWN-FINDING for it and exits 0).  Convergence to the true values and the effect of the tolerances are NOT claimed (a floating-point iteration is outside what the installed solvers decide).',
    note='Trusted: clang front end, vf/irx.py, z3, the kernel hooks (arbitrary finite values, full rank, non-zero determinant - an over-approximation of the real kernels on well-posed data).  Outside: closed-form TRL, correlated parameters, m-error weighting, limits > 3.',
    design='DESIGN.md section 3 / C02', cmd='python3-vt ./check C02', engine='irx+z3'),
 'C06': dict(
    technique='whole-flow symbolic execution of the real vnadata_cksave / vnadata_save / vnadata_load / vnadata_convert (clang-14 IR -> vf/irx.py over an in-memory file system; symbolic doubles cross the file as numeric placeholders mapped back by value) with z3 deciding cell-by-cell equality against an independent reader of the formats and against the loaded object; counterexamples replayed as generated C programs on a clang ASan/UBSan build',
    text='Bounded proof (exact algebra, z3) on the real saver and loader: for S/Z/Y objects with 1..3 ports (4 in thorough), H/G/T/U/A/B with 2 ports and input-impedance vectors with 1..3 ports, file types Touchstone 1 (.sNp), Touchstone 2 (.ts) and NPD, '
         'own-type and converted formats in rectangular coordinates (incl. multi-parameter NPD), impedances default / one symbolic resistance / symbolic per-port / symbolic complex / symbolic per-frequency, default and maximum precision, 2 frequencies, '
         'and EVERY data cell a free complex symbol: (agree) vnadata_cksave and vnadata_save return the same value, refused combinations write nothing and set EINVAL; (written) the bytes the saver writes, read by an independent reader written from the format '
         'documents, denote the type, ports, frequencies, impedances and every cell of the object in the requested form (Touchstone 1 normalisation undone); (loaded) vnadata_load of those bytes gives the same type, dimensions, frequencies, impedances and cells.  '
         'A printed symbolic number is an exact placeholder: the number of significant digits is outside the claim; Touchstone 1 normalisation of Z/Y/H/G with 2+ ports and conversions from Z/Y run on constant cells and are compared numerically (1e-10).',
    note='Trusted: clang front end, vf/irx.py incl. its printf / strtod / stdio model, z3, oracle/netfile_reader.py.  Outside: MA / DB and the other NPD coordinate forms, digits, > 2 frequencies, fsave / fload streams, I/O errors.',
    design='DESIGN.md section 3 / C06', cmd='python3-vt ./check C06', engine='irx+z3'),
 'C08': dict(
    technique='whole-flow symbolic execution of the real vnadata_load (Touchstone 1 / 2 and NPD parsers; clang-14 IR -> vf/irx.py) on generated spellings whose syntax bytes are concrete and whose data numbers are tokens standing for z3 terms; z3 decides that each spelling loads to the ground truth it was generated from; counterexamples replayed natively with numeric instances of the same spelling',
    text='Bounded proof (z3) on the real parsers: for S-parameter data with 1..3 ports (4 in thorough), 2 frequencies and 50 ohm reference, every data number a free symbol, each of the generated spellings - frequency unit Hz / kHz / MHz / GHz with scaled numbers, '
         'RI / MA / DB coordinates (polar formulas over uninterpreted cos / sin / exp), Touchstone 2 Full / Upper / Lower of a symmetric matrix, 12_21 / 21_12, letter case of option line and keywords, order of option-line fields, comments, blank lines, tabs, '
         'line breaks inside records, [Reference] inline or on the next line, Touchstone 2 framing in .sNp files, NPD header-line order (also for the two-port-only types T/U/H/G/A/B and Z/Y), case of the parameter name, NPD comments - is accepted and loads to '
         'exactly the ground truth it was generated from (type, dimensions, frequencies in Hz, impedances, every cell); spellings of one ground truth are therefore equal to each other.',
    note='Trusted: clang front end, vf/irx.py (stdio / strtod model, tokens standing for terms), z3, the spelling generators written from the Touchstone 1.1 / 2.0 specifications and vnadata_save(3).  Outside: other impedances, more ports / frequencies, digits, noise blocks.',
    design='DESIGN.md section 3 / C08', cmd='python3-vt ./check C08', engine='irx+z3'),
 'C17': dict(
    technique='two whole-flow symbolic executions of the real code (clang-14 IR -> vf/irx.py) of two descriptions of the same calibration with shared symbols; z3 decides that both hand the same equations to the solver and store the same error terms; counterexamples replayed as generated C programs (both descriptions calibrated natively, corrected S compared)',
    text='Bounded proof (exact algebra, z3) on the real vnacal_new_add_* .. vnacal_new_solve: for all 8 types x accepted shapes up to 2 ports (3 in thorough; some 3-port in quick), the base description and each re-description of the same '
         'physical information - line for through, mapped matrix with / without port map, ports listed in the other order, abbreviated measurement matrix, reversed / rotated order of standards, a/b form with b = M a (a symbolic, scaled by a free '
         'complex factor, or constant), the same calibration built after an unrelated one on the same vnacal_t, two frequencies solved together vs one at a time - give, in every linear system, the same multiset of equations (up to sign) and '
         'the same stored error terms, with every measured value and parameter a free complex symbol.  Same equations + same solver => same applied S (apply side: C01).',
    note='Trusted: as C01 plus the re-description generators of props/calcfg.py.  Outside: renumbering of the VNA ports, E12 vs UE14 on the apply side, vector / unknown parameters, rounding.',
    design='DESIGN.md section 3 / C17', cmd='python3-vt ./check C17', engine='irx+z3'),
 'C03': dict(
    technique='(i) CBMC 6.11 memory-safety / UB / leak instrumentation (bounds, pointer validity, use-after-free, double free, overflow, shifts, library assert(), unwinding assertions, --memory-leak-check) on the bounded API-history harnesses of the object families (clang-14 IR -> ll2c -> CBMC, and CBMC native for vnaproperty); (ii) the checked object table of the whole-flow symbolic interpreter vf/irx.py (heap, stack incl. VLAs, globals; end-of-flow leak accounting incl. libyaml objects) on complete API flows with symbolic doubles; counterexamples replayed natively (gcc / clang ASan + UBSan, valgrind for uninitialised reads)',
    text='Bounded proof: (i, CBMC) along every bounded API history of the family harnesses - vnadata (plans of 1..5 operations with symbolic indices -1..n+1), vnaproperty (API steps from 12 trees, containers with symbolic subscripts/keys, quote_key on arbitrary bytes), calibration slot table '
         '(inductive step from any table), parameter handles, vnadata_convert (all type pairs), the Touchstone loader on short inputs, single allocation faults in vnadata, number formatting for all precisions - the real code touches only memory it owns, executes no undefined behaviour CBMC instruments, '
         'trips no library assert(), leaves nothing allocated after the matching free, and answers invalid arguments with the documented failure value.  (ii, irx) on ~190 complete flows - vnacal_new_alloc / add_* / solve / add_calibration / apply / free for the C01 configuration families, '
         'solve_auto with an unknown parameter on every branch outcome, vnadata save -> load incl. refused combinations, the parsers on generated spellings, vnacal_save -> vnacal_load - for EVERY value of the symbolic doubles on every explored path: no access outside an owned object, '
         'no use after free / double free / NULL dereference / read of never-written memory / failed library assert, nothing allocated after the matching frees.',
    note='Trusted: as the family harnesses; vf/irx.py object table and libc model; vf/yamlmodel.py.  NOT covered: histories longer than the stated depths, allocation faults outside vnadata, arithmetic UB in the whole-flow part (objects are checked, not overflow / shifts), I/O errors.',
    design='DESIGN.md section 3 / C03', cmd='python3-vt ./check C03'),
 'C04': dict(
    technique='symbolic interpretation of the real vnaconv_*.c (clang-14 IR -> vf/irsym.py, exact rational functions over the reals) with z3 (QF_NRA) deciding the port relations of vnaconv(3); models replayed numerically on the gcc-compiled function',
    text='Exact algebraic proof per function (no sampling): for all 72 two-port conversions and the 9 two-port input-impedance functions, with every matrix entry and reference '
         'impedance a free complex symbol (re z0 = k^2 > 0), z3 shows that every state satisfying the input matrix relation satisfies the output matrix relation and vice versa, '
         'and that an in-place call (out == in, zi overlaying the matrix) gives the same result; the n-port S/Z/Y and zin functions are decided for n = 1 (and n = 2, 3 in thorough, '
         'every feasible LU pivot path, inclusion input => output).  Claims are over the real field: rounding, overflow and NaN are outside.',
    note='Trusted: clang front end, vf/irsym.py (its handling of fadd/fsub/fmul/fdiv/__divdc3/sqrt-of-declared-square/cabs comparisons), z3, oracle/vnaconv_rel.py transcribed from vnaconv(3); '
         'every divisor met is assumed non-zero (away from the singular set).',
    design='DESIGN.md section 4 / C04', cmd='python3-vt ./check C04'),
 'C18': dict(
    technique='bounded symbolic data-flow check with CBMC 6.11 (clang-14 IR -> ll2c in uninterpreted-function float mode) of the real weight computation on hand-built multi-system solve states',
    text='Bounded proof with CBMC for ONE deterministic clause of C18: _vnacal_new_solve_calc_weights attaches to every equation, in the system-major order in which solve_simple / solve_auto / calc_pvalue walk '
         'them, the weight 1/sqrt(nf^2 + tr^2 |m|^2) of THAT equation\'s own measurement cell, for two column systems holding 0..3 equations each and all measured values / noise parameters (floating products '
         'uninterpreted: a bit-exact data-flow identity).  The statistical clauses (rejection rates, outlier power, unbiasedness, V-matrix convergence) are outside: no solver statement corresponds to a rate.',
    note='Trusted: clang, ll2c (uf mode), CBMC, the hand-built solve state in harness/C18_weights.c.  The consumers\' indexing (global equation index) was aligned by the fix and is checked by reading only.',
    design='DESIGN.md section 4 / C18'),
 'C20': dict(
    technique='bounded symbolic execution with CBMC 6.11 (clang-14 IR -> ll2c) of the real add / solve / add_calibration code of 1-port calibrations with numeric kernels stubbed',
    text='Bounded proof with CBMC on the real vnacal_new code for 1-port T8 / U8 calibrations with 1..2 frequencies and symbolic measurements: with 0, 1 or 2 of the three needed single-reflect standards '
         'vnacal_new_solve fails with EDOM (one callback) and installs nothing; after the missing standards are added the repeated solve succeeds, vnacal_add_calibration returns the index find honours, and '
         'vnacal_new_free + vnacal_free leave nothing allocated; the least-squares kernel is never called with fewer rows than unknowns.  Numeric kernels are stubs reporting full rank: nothing is claimed about '
         'numerical rank decisions, larger calibrations or arbitrary standard subsets.',
    note='Trusted: clang, ll2c, CBMC, kernel stubs (_vnacommon_qrsolve*, mldivide, mrdivide, minverse, qr), insque/remque/qsort models, vnaproperty_delete/copy stubs.',
    design='DESIGN.md section 4 / C20'),
 'C19': dict(
    technique='symbolic interpretation of the real LU / mldivide / mrdivide / minverse (clang-14 IR -> vf/irsym.py) with z3 deciding A X = B, X A = B, A X = I, det and the pivot rule on every feasible pivot path; numeric replay on the gcc-compiled kernel',
    text='Exact algebraic proof per pivot path: for n = 1..2 (3 in thorough) with every matrix entry a free complex symbol, on EVERY feasible outcome of the pivot comparisons, '
         'the real kernels return X with A X = B / X A = B / A X = I exactly, the returned determinant equals det A, row_index is a permutation and L U = P A; the pivot chosen is the one '
         'scaled partial pivoting prescribes (|a_i0| / max_j |a_ij| maximal) - a deviation is replayed numerically on a badly row-scaled system before it is reported.',
    note='Trusted: clang front end, vf/irsym.py, z3. Exact-field claims only: backward-error bounds for n up to 8 / 40x15 and the QR family are outside (not solver-decidable here).',
    design='DESIGN.md section 4 / C19', cmd='python3-vt ./check C19'),
 'C05': dict(
    technique='bounded symbolic model checking of the real vnadata_convert dispatch: clang-14 IR -> ll2c -> CBMC 6.11, recording stubs for the 90 vnaconv kernels, name-derived oracle',
    text='Bounded proof with CBMC over the real vnadata_convert: for all 11 x 13 (from, to) type codes, shapes 2x2 / 3x3 / 1x2, ordinary and per-frequency z0, in-place and '
         'out-of-place, 2 frequencies (0..2 in thorough) and ALL cell / frequency / impedance values: acceptance equals the documented validity rule; exactly one kernel call per '
         'frequency, the kernel is vnaconv_<from>to<to> by name, with that frequency matrix and that frequency impedance vector; frequencies and impedances are carried over; refused '
         'calls leave both objects untouched; after conversion to ZIN the object is a clean 1 x ports object.',
    note='Trusted: clang, ll2c, CBMC; kernels are replaced by recording stubs generated from vnaconv.h (their numeric content is C04); the oracle table is derived from function names and vnadata(3).',
    design='DESIGN.md section 4 / C05'),
 'C07': dict(
    technique='(a) CBMC 6.11 on the real number formatting of vnacal_save.c (printf family replaced by its C11 length contract); (b) whole-flow symbolic execution of the real vnacal_new_* .. vnacal_save .. vnacal_load (clang-14 IR -> vf/irx.py) with symbolic error terms and a document-API model of libyaml (vf/yamlmodel.py), z3 deciding equality of every loaded error term; counterexamples replayed natively (clang ASan/UBSan)',
    text='Bounded proof: (C07.a, CBMC) add_double / add_complex of vnacal_save.c never write beyond (or truncate in) their buffer for EVERY accepted precision (1..VNACAL_MAX_PRECISION, symbolic) and every value.  (C07.b, irx + z3) for vnacal_t objects holding 1..3 '
         'calibrations of all 8 types (1x1..2x2; 3x3 in thorough) built by the real vnacal_new flow with every error term a free complex symbol, 1..3 frequencies, default / 4-digit / maximum precision, global and per-calibration property trees (present and absent): '
         'vnacal_save followed by vnacal_load gives the same number and order of calibrations and per calibration the same name, type, dimensions, frequencies (bit-exact at maximum precision), z0, EVERY error term (z3: equal for all values), the same property trees '
         '(kinds, keys in order, list order, nulls, scalar bytes); saving the loaded object writes the same document; nothing stays allocated (libyaml objects included).  libyaml itself is modelled as the identity on documents; digits of symbolic numbers are placeholders.',
    note='Trusted: clang, ll2c, CBMC, the length-contract stubs (a); clang, vf/irx.py, vf/yamlmodel.py, z3 (b).  NOT covered: the libyaml emitter / parser binary, digit exactness of printf / strtod, legacy file versions, parameters stored with a calibration.',
    design='DESIGN.md section 3 / C07', cmd='python3-vt ./check C07'),
 'C11': dict(
    technique='bounded symbolic model checking with CBMC 6.11 of _vnaerr_verror (all categories/errno/callback/vasprintf outcomes symbolic) plus the refused=>unchanged / callback-count / index-honoured assertions of the vnadata, convert, slot-table and range harnesses',
    text='Bounded proof with CBMC: (C11.a) for every category, incoming errno, callback presence and vasprintf outcome, _vnaerr_verror leaves the documented errno and calls the error '
         'function exactly once (never when NULL); (C11.b-d) re-runs, under this property, the obligations of C15 / C05 / C16 / C10 that assert: a refused call returns the failure value with '
         'EINVAL/ENOENT and exactly one callback (none for the documented silent queries), leaves every getter unchanged, and that the index returned by vnacal_add_calibration is the one find/get_name honour.',
    note='Trusted: as C15/C05/C16/C10. Not every API function x validity class is covered: only those reached by these harnesses; I/O failures from the OS are outside.',
    design='DESIGN.md section 4 / C11'),
 'C09': dict(
    technique='bounded symbolic execution of the real Touchstone loader over all short byte strings: clang-14 IR -> ll2c -> CBMC 6.11 with unwinding assertions (termination), getc/strtod stubs',
    text='Bounded proof with CBMC for the Touchstone loader only: after each of 11 concrete prefixes (empty, "#", "# HZ ", "[VERSION] 2.0\\n#", "[NUMBER OF PORTS] 1\\n[REFERENCE] ", ...) EVERY following byte '
         '(2 bytes in thorough) and then end of file makes _vnadata_load_touchstone terminate (unwinding assertions), stay memory-safe and leak-free, and either fail with -1 and a documented '
         'errno plus a callback, or succeed with dimensions that fit the type.  NPD, vnacal_load and YAML import are NOT covered (libyaml is a binary; longer symbolic inputs do not finish).',
    note='Trusted: clang, ll2c, CBMC; getc = buffer then EOF for ever; strtod/strtol return arbitrary values for the numeric prefix; vasprintf/ctype stubs. Inputs longer than prefix + 1..2 symbolic bytes are outside.',
    design='DESIGN.md section 4 / C09'),
 'C12': dict(
    technique='bounded fault injection under CBMC 6.11 (clang-14 IR -> ll2c with an allocation hook): the K-th allocation of one vnadata call fails, K and shapes enumerated, values symbolic',
    text='Fault enumeration decided by CBMC on the real vnadata code: for objects prepared by init(shape1) in ordinary or per-frequency z0 mode, the K-th allocation (K = 0..7, 11 thorough) of a following '
         'resize / init / set_fz0 / set_z0 / add_frequency fails: the call succeeds or returns -1 with ENOMEM and one callback, the logical state is as before, every getter works, repeating the call '
         'without the fault gives the fault-free state, and vnadata_free leaves nothing allocated (CBMC leak check).  Only the vnadata family is covered.',
    note='Trusted: clang, ll2c (every malloc/calloc/realloc routed through the hook), CBMC. vnaproperty / vnacal / vnacal_new allocations, libyaml/stdio allocations and multiple failures are outside; fault indices are enumerated, not symbolic.',
    design='DESIGN.md section 4 / C12', category='fault_enumeration'),
 'C10': dict(
    technique='bounded symbolic model checking of the real range tests and interpolation kernels: clang-14 IR -> ll2c -> CBMC 6.11, IEEE-754 bit-precise comparisons (multiply/divide uninterpreted where stated)',
    text='Bounded proof with CBMC over the real code: (C10.a) the four range tests (check_single_frequency_range, vnacal_new_set_m_error, vnacal_get_parameter_value, '
         'the calibration f-bounds used by vnacal_apply) refuse every range that misses the needed band by >= 5 % at either end and accept every covering range, for ALL '
         'double frequencies in [1,1e15]; (C10.b) _vnacal_rfi returns bit-exactly yp[k] at x == xp[k] for any hint and window; (C10.c) the bracketing segment does not depend on '
         'the hint; (C10.d) the spline is exact at every knot including 2-knot vectors, and calc is leak-free on its error path.  Knot counts 2..3 (quick) / 1..5 (thorough).',
    note='Trusted: clang, ll2c, CBMC float model; rfi obligations treat floating multiply/divide/sqrt as uninterpreted functions (the claims do not depend on products); '
         'reproduction of rational functions BETWEEN knots and the 1..5 % band are outside the claim.',
    design='DESIGN.md section 4 / C10'),
 'C16': dict(
    technique='bounded symbolic model checking of the real slot-table / parameter-collection code: clang-14 IR -> ll2c -> CBMC 6.11, table-model oracle, inductive step over arbitrary table states',
    text='Bounded proof with CBMC over the real code: (C16.a) one add / delete / find / get_name / get_calibration_end step from an ARBITRARY slot table '
         '(every occupancy pattern of allocation 0..3, symbolic name and index) agrees with a table model - an inductive step, so histories of any length over such '
         'tables are covered, including that the index add returns is the one find/get_name honour; (C16.b) enumerated make_scalar / make_unknown / delete / query '
         'histories of parameter handles from vnacal_create to vnacal_free (handles -1..7) against a handle-table model with reference counts, with assert/leak/bounds checks.',
    note='Trusted: clang, ll2c, CBMC, the table models in harness/C16_*.c; C16.b histories are enumerated concretely (symbolic handles exhaust memory); vnacal_new_t holds and solved values are outside.',
    design='DESIGN.md section 4 / C16'),
 'C13': dict(
    technique='bounded symbolic model checking of the real vnaproperty.c with CBMC 6.11 (native C front end, unwinding assertions), abstract-document / sequence / ordered-set oracles, native ASan replay',
    text='Bounded proof with CBMC over the real vnaproperty.c: (C13.a) from 12 enumerated small trees one operation of every kind (set =v, set #, delete, '
         'set_subtree, malformed set, calls with trailing tokens) with descriptors of the grammar forms - descriptors are concrete (a single symbolic descriptor byte '
         'makes symbolic execution of scan/parse/recursive free explode), the scalar value byte is symbolic - after which all observers on 12 paths must agree with an '
         'abstract document and the tree must delete without leak; (C13.d) the list and map containers one step from 0..8-element pre-states with SYMBOLIC subscript / '
         'key / add flag against an abstract sequence / ordered-set model with representation invariants.  Memory-safety, leak and unwinding checks are part of every verdict.',
    note='Trusted: CBMC, the models in harness/C13_step.c and C13_ds.c, libc stubs in support/vf_libc.h (fixed-size strdup/vasprintf, strtol, ctype), typed realloc/memmove/zero '
         "models for pointer vectors, the library's 'X' poison fill skipped; API-level list histories are outside (they do not finish), lists are covered at container level.",
    design='DESIGN.md section 4 / C13'),
}

NA_REASONS = {
 'C14': 'the property is about strings passing through the emitter and parser of libyaml, a binary without source in this image: nothing of it can be encoded for a solver, and the libvna side (export / import of the document object) has no symbolic content to decide - a concrete-execution check exists (props/C14.py over the document-API model vf/yamlmodel.py) but is not a solver verdict and is therefore not claimed; the same libvna code paths (_vnaproperty_yaml_export / _import, properties embedded in calibration files) are exercised by the registered C07.b round trip; see DESIGN.md section 6',
}
NOT_APPLICABLE = {}
for i in range(1, 21):
    pid = 'C%02d' % i
    if pid not in CLAIMED:
        NOT_APPLICABLE[pid] = NA_REASONS[pid]

m = {
 'version': 1,
 'setup_cmd': 'true',
 'hooks': {'guard': 'LIBVNA_VERIF', 'enable': 'none needed: static functions are reached by #include of the real .c file from the harness TU; stubs are supplied at link level',
           'baseline_off_cmd': 'make -C /repo check', 'source_commits': [], 'add_only': True},
 'engines': [
    {'name': 'll2c+cbmc', 'path': 'vf/ll2c.py', 'serves_properties': [p for p in sorted(CLAIMED) if p not in ('C13', 'C04', 'C19') and not CLAIMED[p].get('engine')], 'kind_free_text': 'clang-14 -O0 IR -> C translator feeding CBMC 6.11 (bounded symbolic execution, SAT)'},
    {'name': 'irx+z3', 'path': 'vf/irx.py', 'serves_properties': [p for p in sorted(CLAIMED) if CLAIMED[p].get('engine') == 'irx+z3'],
     'kind_free_text': 'whole-flow symbolic interpreter of the LLVM IR of the entire library (concrete control flow, checked heap and stack objects, libc / stdio model, doubles as exact rational functions of z3 reals, forks on order comparisons, generic-point handling of equality tests); z3 decides the identities'},
    {'name': 'irsym+z3', 'path': 'vf/irsym.py', 'serves_properties': ['C04', 'C19'], 'kind_free_text': 'LLVM-IR symbolic interpreter with exact rational-function doubles; z3 nonlinear real arithmetic decides the relation'},
    {'name': 'cbmc-native', 'path': 'vf/core.py', 'serves_properties': ['C13'], 'kind_free_text': 'CBMC 6.11 C front end directly on the real .c files (complex-free units)'},
 ],
 'checks': [
    {'property_id': pid, 'quick_cmd': '%s --tier quick' % c.get('cmd', './check %s' % pid), 'thorough_cmd': '%s --tier thorough' % c.get('cmd', './check %s' % pid),
     'evidence_file': 'evidence/%s.json' % pid, 'replay_cmd_template': './check --replay {path}', 'engine': c.get('engine') or ('irsym+z3' if pid in ('C04', 'C19') else ('ll2c+cbmc' if pid not in ('C13',) else 'cbmc-native')),
     'level_claimed': {'category': c.get('category', 'proof'), 'text': c['text'], 'design_ref': c['design']}, 'level_note': c['note'], 'technique': c['technique']}
    for pid, c in sorted(CLAIMED.items())],
 'notes': 'All checks regenerate their encoding from /repo\'s working tree on every run. Exit 0 = held within the stated bounds; exit 1 + VIOLATION line = '
          'solver counterexample reproduced natively (ASan/UBSan) against the unmodified sources; exit 2 = check incomplete/broken (timeout, vacuity witness '
          'not reached, unconfirmed counterexample) - never reported as success.',
 'not_applicable': [{'property_id': k, 'reason': v} for k, v in sorted(NOT_APPLICABLE.items())],
}
json.dump(m, open(os.path.join(os.path.dirname(os.path.abspath(__file__)), 'MANIFEST.json'), 'w'), indent=1)
print('claimed', sorted(CLAIMED))
