"""Independent readers of Touchstone 1 / Touchstone 2 / NPD text, written from the format documents (Touchstone File Format
Specification 1.1 / 2.0; vnadata_save(3) for NPD), sharing no code with libvna.  Numbers are resolved through a callback
num(token) -> value so that the placeholders of symbolic values (vf/irx.py) map back to their symbols.

Each reader returns a dict:
  type        first parameter letter(s) ('S','Z','Y','H','G','T','U','A','B','ZIN')
  ports / rows / columns
  freqs       list of values (Hz)
  z0          list per port (ordinary)  or  fz0: list per frequency of list per port
  data        data[f][r][c] = (x, y)  pairs as stored, with 'coord' in {'RI','MA','DB'} and, for Touchstone 1 Z/Y/H/G, still
              normalised to the reference resistance ('normalised': True)
"""
import re


class FormatError(Exception):
    pass


UNIT = {'hz': 1, 'khz': 10 ** 3, 'mhz': 10 ** 6, 'ghz': 10 ** 9}


def _strip(line):
    i = line.find('!')
    return line if i < 0 else line[:i]


def _option_line(line):
    """'# <unit> <type> <coord> R <n>' in any order of the optional fields; defaults GHz S MA R 50"""
    toks = line[1:].split()
    unit, typ, coord, r = 'ghz', 'S', 'MA', '50'
    i = 0
    while i < len(toks):
        t = toks[i].lower()
        if t in UNIT: unit = t
        elif t in ('s', 'y', 'z', 'h', 'g'): typ = t.upper()
        elif t in ('ma', 'db', 'ri'): coord = t.upper()
        elif t == 'r':
            i += 1
            if i >= len(toks): raise FormatError('R without value')
            r = toks[i]
        else: raise FormatError('unknown option %r' % toks[i])
        i += 1
    return unit, typ, coord, r


def read_touchstone1(text, ports, num):
    """ports comes from the file name (.sNp)"""
    opt = None; numbers = []
    for raw in text.split('\n'):
        line = _strip(raw).strip()
        if not line: continue
        if line.startswith('#'):
            if opt is None: opt = _option_line(line)
            continue
        numbers += line.split()
    if opt is None: opt = ('ghz', 'S', 'MA', '50')
    unit, typ, coord, r = opt
    per = 1 + 2 * ports * ports
    if len(numbers) % per: raise FormatError('%d numbers is not a multiple of %d' % (len(numbers), per))
    freqs = []; data = []
    for k in range(0, len(numbers), per):
        rec = numbers[k:k + per]
        freqs.append((rec[0], UNIT[unit]))
        m = [[None] * ports for _ in range(ports)]
        cells = [(r_, c) for r_ in range(ports) for c in range(ports)]
        if ports == 2: cells = [(0, 0), (1, 0), (0, 1), (1, 1)]          # two-port files store 11 21 12 22
        for i, (r_, c) in enumerate(cells): m[r_][c] = (num(rec[1 + 2 * i]), num(rec[2 + 2 * i]))
        data.append(m)
    return {'type': typ, 'ports': ports, 'rows': ports, 'columns': ports, 'freqs': [(num(f), u) for f, u in freqs], 'coord': coord, 'data': data,
            'z0': [num(r)] * ports, 'normalised': typ in ('Z', 'Y', 'H', 'G'), 'R': num(r)}


def read_touchstone2(text, num):
    opt = None; kw = {}; numbers = []; in_data = False; ref = []; in_ref = False
    for raw in text.split('\n'):
        line = _strip(raw).strip()
        if not line: continue
        if line.startswith('#'):
            if opt is None: opt = _option_line(line)
            continue
        if line.startswith('['):
            m = re.match(r'\[([^\]]*)\]\s*(.*)$', line)
            if not m: raise FormatError('bad keyword line %r' % line)
            k = ' '.join(m.group(1).lower().split()); v = m.group(2).strip()
            in_ref = False
            if k == 'network data': in_data = True
            elif k == 'end': in_data = False
            elif k == 'reference':
                in_ref = True; ref += v.split()
            else: kw[k] = v
            continue
        if in_ref: ref += line.split(); continue
        if in_data: numbers += line.split(); continue
        raise FormatError('stray line %r' % line)
    if kw.get('version') != '2.0': raise FormatError('version')
    unit, typ, coord, r = opt
    ports = int(kw['number of ports'])
    nf = int(kw['number of frequencies'])
    fmt = kw.get('matrix format', 'full').lower()
    order = kw.get('two-port data order', '12_21' if ports != 2 else None)        # the specification's keyword; nothing else is accepted
    if ports == 2 and order is None: raise FormatError('[Two-Port Data Order] missing (required for 2-port files by Touchstone 2.0)')
    known = {'version', 'number of ports', 'two-port data order', 'number of frequencies', 'number of noise frequencies', 'matrix format', 'mixed-mode order'}
    for k in kw:
        if k not in known: raise FormatError('unknown keyword [%s]' % k)
    if fmt == 'full': cells = [(r_, c) for r_ in range(ports) for c in range(ports)]
    elif fmt == 'upper': cells = [(r_, c) for r_ in range(ports) for c in range(r_, ports)]
    elif fmt == 'lower': cells = [(r_, c) for r_ in range(ports) for c in range(0, r_ + 1)]
    else: raise FormatError('matrix format')
    if ports == 2 and fmt == 'full' and order == '21_12': cells = [(0, 0), (1, 0), (0, 1), (1, 1)]
    per = 1 + 2 * len(cells)
    if len(numbers) != per * nf: raise FormatError('%d numbers, expected %d' % (len(numbers), per * nf))
    freqs = []; data = []
    for k in range(0, len(numbers), per):
        rec = numbers[k:k + per]
        freqs.append((num(rec[0]), UNIT[unit]))
        m = [[None] * ports for _ in range(ports)]
        for i, (r_, c) in enumerate(cells):
            m[r_][c] = (num(rec[1 + 2 * i]), num(rec[2 + 2 * i]))
            if fmt != 'full': m[c][r_] = m[r_][c]
        data.append(m)
    z0 = [num(x) for x in ref] if ref else [num(r)] * ports
    if len(z0) != ports: raise FormatError('[Reference] count')
    return {'type': typ, 'ports': ports, 'rows': ports, 'columns': ports, 'freqs': freqs, 'coord': coord, 'data': data, 'z0': z0, 'normalised': False, 'R': num(r)}


def read_npd(text, num):
    """NPD as documented in vnadata_save(3): '#:' header lines (version, rows, columns | ports, frequencies, parameters, z0 | 'z0 PER-FREQUENCY',
    fprecision, dprecision), '#' comments, then one line per frequency: frequency, [per-frequency z0 pairs], then the fields of every
    parameter in the order of the #:parameters list, each matrix row-major"""
    hdr = {}; rows_ = []
    for raw in text.split('\n'):
        line = raw.strip()
        if not line: continue
        if line.startswith('#:'):
            parts = line[2:].split(None, 1)
            hdr[parts[0].lower()] = parts[1].strip() if len(parts) > 1 else ''
            continue
        if line.startswith('#'): continue
        rows_.append(line.split())
    if 'ports' in hdr: rows = cols = int(hdr['ports'])
    else: rows, cols = int(hdr['rows']), int(hdr['columns'])
    ports = max(rows, cols)
    params = [p.strip() for p in hdr['parameters'].split(',')]
    fz0 = hdr.get('z0', '').upper().startswith('PER')
    nf = int(hdr['frequencies'])
    if len(rows_) != nf: raise FormatError('%d data lines, %d frequencies' % (len(rows_), nf))
    def cplx(tok_re, tok_im):
        return (num(tok_re), num(tok_im.rstrip('jJ')))
    z0 = None
    if not fz0:
        zt = hdr['z0'].split()
        z0 = [cplx(zt[2 * i], zt[2 * i + 1]) for i in range(ports)]
    out = {'rows': rows, 'columns': cols, 'ports': ports, 'params': params, 'freqs': [], 'z0': z0, 'fz0': [] if fz0 else None, 'sets': []}
    for rec in rows_:
        i = 0
        out['freqs'].append((num(rec[i]), 1)); i += 1
        if fz0:
            zz = []
            for p in range(ports): zz.append((num(rec[i]), num(rec[i + 1]))); i += 2
            out['fz0'].append(zz)
        sets = []
        for prm in params:
            m = re.match(r'(?i)(zin|[stuzyhgab])(ri|ma|db|prc|prl|src|srl|il|rl|vswr)?$', prm)
            if not m: raise FormatError('parameter %r' % prm)
            typ = m.group(1).upper(); coord = (m.group(2) or 'ri').upper()
            if coord not in ('RI', 'MA', 'DB'): raise FormatError('coordinate %s not handled by this reader' % coord)
            if typ == 'ZIN': cells = [(0, c) for c in range(ports)]
            else: cells = [(r_, c) for r_ in range(rows) for c in range(cols)]
            mtx = {}
            for (r_, c) in cells:
                mtx[(r_, c)] = (num(rec[i]), num(rec[i + 1])); i += 2
            sets.append({'type': typ, 'coord': coord, 'cells': mtx})
        if i != len(rec): raise FormatError('%d tokens on a data line, %d consumed' % (len(rec), i))
        out['sets'].append(sets)
    return out
