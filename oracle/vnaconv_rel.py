"""Port relations of vnaconv(3), transcribed once from the manual page (not from the code):

   a_k = 1/2 K_k (v_k + Z_k i_k)      v_k = (Z_k* a_k + Z_k b_k) / (K_k re Z_k)
   b_k = 1/2 K_k (v_k - Z_k* i_k)     i_k = (a_k - b_k)          / (K_k re Z_k)          K_k = 1/sqrt|re Z_k|

   S: [b1 b2] = S [a1 a2]      T: [b1 a1] = T [a2 b2]      U: [a2 b2] = U [b1 a1]
   Z: [v1 v2] = Z [i1 i2]      Y: [i1 i2] = Y [v1 v2]      H: [v1 i2] = H [i1 v2]      G: [i1 v2] = G [v1 i2]
   A: [v1 i1] = A [v2 -i2]     B: [v2 -i2] = B [v1 i1]
   zi_k = v_k / i_k with every other port terminated in its reference impedance (v_j = -Z_j i_j)

re Z_k is parametrised as k_k^2 with k_k > 0 (the property's precondition re z0 > 0), so K_k = 1/k_k exactly.
Complex numbers are pairs (re, im) of irsym.Rat.
"""
from irsym import Rat


class C:
    __slots__ = ('re', 'im')
    def __init__(s, re, im): s.re = re; s.im = im
    def __add__(a, b): return C(a.re + b.re, a.im + b.im)
    def __sub__(a, b): return C(a.re - b.re, a.im - b.im)
    def __neg__(a): return C(-a.re, -a.im)
    def __mul__(a, b): return C(a.re * b.re - a.im * b.im, a.re * b.im + a.im * b.re)
    def conj(a): return C(a.re, -a.im)
    def scale(a, r): return C(a.re * r, a.im * r)     # r: Rat (real)
    def divr(a, r): return C(a.re / r, a.im / r)
    def __truediv__(a, b):
        den = b.re * b.re + b.im * b.im
        return C((a.re * b.re + a.im * b.im) / den, (a.im * b.re - a.re * b.im) / den)


HALF = Rat.const(0.5)


def waves(v, i, z0, k):
    """a_k, b_k from v_k, i_k"""
    a = [(v[j] + z0[j] * i[j]).scale(HALF).divr(k[j]) for j in range(len(v))]
    b = [(v[j] - z0[j].conj() * i[j]).scale(HALF).divr(k[j]) for j in range(len(v))]
    return a, b


def vi_from_waves(a, b, z0, k):
    v = [(z0[j].conj() * a[j] + z0[j] * b[j]).divr(k[j]) for j in range(len(a))]
    i = [(a[j] - b[j]).divr(k[j]) for j in range(len(a))]
    return v, i


def state_from(X, lhs, rhs, z0, k):
    """(v, i) of the 2-port state whose type-X left/right vectors are lhs/rhs"""
    if X in 'stu':
        if X == 's': b, a = lhs, rhs
        elif X == 't': b = [lhs[0], rhs[1]]; a = [lhs[1], rhs[0]]
        else: a = [rhs[1], lhs[0]]; b = [rhs[0], lhs[1]]
        return vi_from_waves(a, b, z0, k)
    if X == 'z': return lhs, rhs
    if X == 'y': return rhs, lhs
    if X == 'h': return [lhs[0], rhs[1]], [rhs[0], lhs[1]]
    if X == 'g': return [rhs[0], lhs[1]], [lhs[0], rhs[1]]
    if X == 'a': return [lhs[0], rhs[0]], [lhs[1], -rhs[1]]
    if X == 'b': return [rhs[0], lhs[0]], [rhs[1], -lhs[1]]
    raise ValueError(X)


def sides(X, v, i, z0, k):
    """(lhs, rhs) of the type-X relation for the state (v, i)"""
    if X in 'stu':
        a, b = waves(v, i, z0, k)
        if X == 's': return b, a
        if X == 't': return [b[0], a[0]], [a[1], b[1]]
        return [a[1], b[1]], [b[0], a[0]]
    if X == 'z': return v, i
    if X == 'y': return i, v
    if X == 'h': return [v[0], i[1]], [i[0], v[1]]
    if X == 'g': return [i[0], v[1]], [v[0], i[1]]
    if X == 'a': return [v[0], i[0]], [v[1], -i[1]]
    if X == 'b': return [v[1], -i[1]], [v[0], i[0]]
    raise ValueError(X)


def matvec(M, x):
    n = len(x)
    out = []
    for r in range(n):
        acc = M[r][0] * x[0]
        for c in range(1, n): acc = acc + M[r][c] * x[c]
        out.append(acc)
    return out


def residual(X, M, v, i, z0, k):
    """lhs - M rhs of the type-X relation at the state (v, i): list of C that must all vanish"""
    lhs, rhs = sides(X, v, i, z0, k)
    mr = matvec(M, rhs)
    return [lhs[j] - mr[j] for j in range(len(lhs))]
