from vf.core import Ob

META = dict(
    level='proof',
    bounds='C07.a: precision symbolic over everything vnacal_set_fprecision / vnacal_set_dprecision accept (1..VNACAL_MAX_PRECISION), values symbolic; '
           'the printf family is replaced by the C11 length contract for %.*e, %+.*e, %+a',
    outside='libyaml emitter / parser (binary only); digit exactness of printf / strtod; structural round trip through the YAML document object '
            '(designed as C07.b, not built); legacy version mapping',
    assumptions=['sprintf/asprintf/snprintf length-contract stubs', 'yaml_document_add_scalar stub'],
    explanation='bounded symbolic check of the real add_double / add_complex of vnacal_save.c against the C standard length contract of printf',
)


def obligations(tier):
    return [Ob('C07.a/number-formatting', 'C07_format.c', engine='N', unwind=24, timeout=600,
               functions=['add_double', 'add_complex'], bounds='precision 1..1000 symbolic', stubs=['printf-family length contract', 'yaml_document_add_scalar'],
               what='add_double / add_complex never write beyond their buffer for any accepted precision')]


def run(tier, only=None):
    """C07.a (CBMC, number formatting) + C07.b (whole-flow save -> load round trip through the document model, props/yamlflow.py)"""
    import os, json, time, re
    from vf import core
    from props import calrun, yamlflow
    t0 = time.time()
    obs = obligations(tier)
    if only: obs = [o for o in obs if only in o.id]
    rc_a = core.run_property('C07', obs, tier, META) if obs else 0
    ev_a = json.load(open(os.path.join(core.VERIF, 'evidence', 'C07.json'))) if obs else None
    ctx = core.Ctx()
    try:
        ml = calrun.build_whole_ir(ctx); calrun.load_module(ml)
        jobs = [dict(j, kind='C07', tier=tier) for j in yamlflow.c07_jobs(tier) if not only or only in j['id']]
        results = calrun.run_jobs(yamlflow.worker, jobs, par=max(1, core.NCPU - 1), timeout=900, mem_gb=10) if jobs else []
        viol = []
        native = calrun.Native(ctx)
        for r, j in zip(results, jobs):
            if r.get('error'): continue
            whats = []
            if r.get('fault'): whats.append('memory fault / abort in the symbolic run of the real code: ' + r['fault'])
            for x in r.get('sat', []): whats.append('%s %s' % (x.get('q'), json.dumps(x.get('detail', x.get('model')), default=str)[:300]))
            if not whats: continue
            rd = os.path.join(core.VERIF, 'evidence', 'replay', 'C07_' + re.sub(r'\W+', '_', r['id']))
            ok, how, outp = native.run_c(native_roundtrip(j), rd)
            json.dump({'property': 'C07', 'job': j, 'what': whats[:10], 'native': how}, open(os.path.join(rd, 'cex.json'), 'w'), indent=1, default=str)
            viol.append({'id': r['id'], 'what': ' ;; '.join(whats[:6]), 'replay': rd, 'confirmed': ok, 'how': how})
        meta = {'checker_cmd': 'CBMC 6.11 on vnacal_save.c number formatting  +  clang-14 IR (whole library) -> vf/irx.py + vf/yamlmodel.py (document-API model) | z3',
                'trusted_base': (ev_a or {}).get('coverage', {}).get('trusted_base', []) + ['vf/irx.py, vf/yamlmodel.py (libyaml emitter + parser modelled as the identity on documents)', 'z3'],
                'functions': ['add_double', 'add_complex', 'vnacal_save', 'vnacal_load', 'parse_document', '_vnaproperty_yaml_export', '_vnaproperty_yaml_import', 'vnacal_property_*', '...'],
                'bounds': 'C07.a: ' + META['bounds'] + '.  C07.b: %d save -> load jobs: 1..3 calibrations of all 8 types (1x1 .. 2x2; 3x3 in thorough) built by the real vnacal_new flow with symbolic error terms, 1..3 frequencies, '
                          'default / 4-digit / maximum precision, global and per-calibration property trees (with and without)' % len(jobs),
                'outside': 'libyaml itself (emitter text, parser, quoting: modelled as the identity on documents incl. scalar style), digits of symbolic numbers (placeholders), legacy file versions, parameters saved with the calibration',
                'explanation': yamlflow.__doc__, 'assumptions': ['libyaml emitter-then-parser is the identity on documents', 'exact real arithmetic'],
                'samples': [{'id': r.get('id'), 'queries': r.get('queries'), 'file_bytes': r.get('file_bytes'), 'time_s': r.get('time')} for r in results[:20]], 'evidence': False}
        rc_b, ev_b = calrun.report('C07', tier, results, viol, meta, t0)
        ev = ev_b
        if ev_a:
            ev['coverage']['obligations'] += ev_a['coverage'].get('obligations', 0); ev['coverage']['discharged'] += ev_a['coverage'].get('discharged', 0)
            ev['coverage']['cbmc_part'] = {k: ev_a['coverage'].get(k) for k in ('obligations', 'discharged', 'solver_time_s', 'functions_encoded', 'samples') if k in ev_a['coverage']}
            ev['violations'] += ev_a.get('violations', 0)
        ev['wall_s'] = round(time.time() - t0, 1)
        json.dump(ev, open(os.path.join(core.VERIF, 'evidence', 'C07.json'), 'w'), indent=1)
        return max(rc_a, rc_b) if 1 not in (rc_a, rc_b) else 1
    finally:
        ctx.close()


def native_roundtrip(job):
    """save -> load natively: 1-port T8 calibrations from numeric data carrying the job's property expressions; names, types, whole property trees and the
    applied S of a probe measurement must agree between the original and the loaded object"""
    from props import yamlflow
    def cstr(b): return b.decode('utf-8').replace('\\', '\\\\').replace('"', '\\"')
    L = ['#include <stdio.h>', '#include <stdlib.h>', '#include <string.h>', '#include <math.h>', '#include <complex.h>', '#include <unistd.h>', '#include <vnacal.h>',
         'static void errfn(const char *m, void *a, vnaerr_category_t c) { fprintf(stderr, "libvna: %s\\n", m); }',
         'static int same(const vnaproperty_t *a, const vnaproperty_t *b) {',
         '  if (a == NULL || b == NULL) return a == b;',
         '  int ta = vnaproperty_type(a, "."), tb = vnaproperty_type(b, "."); if (ta != tb) return 0;',
         '  if (ta == \'s\') return strcmp(vnaproperty_get(a, "."), vnaproperty_get(b, ".")) == 0;',
         '  if (ta == \'l\') { int n = vnaproperty_count(a, "."); if (n != vnaproperty_count(b, ".")) return 0; for (int i = 0; i < n; ++i) if (!same(vnaproperty_get_subtree(a, "[%d]", i), vnaproperty_get_subtree(b, "[%d]", i))) return 0; return 1; }',
         '  if (ta == \'m\') { const char **ka = vnaproperty_keys(a, "."), **kb = vnaproperty_keys(b, "."); int ok = 1; int i = 0;',
         '    for (; ok && ka[i] != NULL; ++i) { if (kb[i] == NULL || strcmp(ka[i], kb[i]) != 0) { ok = 0; break; } char *q = vnaproperty_quote_key(ka[i]); ok = same(vnaproperty_get_subtree(a, "%s", q), vnaproperty_get_subtree(b, "%s", q)); free(q); }',
         '    if (ok && kb[i] != NULL) ok = 0; free(ka); free(kb); return ok; }',
         '  return 1; }',
         'int main(void) { int bad = 0; vnacal_t *vcp = vnacal_create(errfn, NULL); const double fv[2] = {1e9, 2e9};']
    for k, cname in enumerate(job['cals']):
        L += ['  { vnacal_new_t *vnp = vnacal_new_alloc(vcp, VNACAL_T8, 1, 1, 2); vnacal_new_set_frequency_vector(vnp, fv);',
              '    double complex s[2] = {-0.9 + 0.01 * %d, -0.8}, o[2] = {0.95, 0.9 + 0.02 * I}, m[2] = {0.01 * %d, 0.02}; double complex *p[1];' % (k, k + 1),
              '    p[0] = s; vnacal_new_add_single_reflect_m(vnp, p, 1, 1, VNACAL_SHORT, 1); p[0] = o; vnacal_new_add_single_reflect_m(vnp, p, 1, 1, VNACAL_OPEN, 1);',
              '    p[0] = m; vnacal_new_add_single_reflect_m(vnp, p, 1, 1, VNACAL_MATCH, 1); if (vnacal_new_solve(vnp) != 0) return 2;',
              '    int ci = vnacal_add_calibration(vcp, "cal %d", vnp); if (ci != %d) { fprintf(stderr, "VF-ASSERT-FAIL: index\\n"); bad = 1; }' % (k, k)]
        if job['props'] is True or (job['props'] == 'first' and k == 0) or (job['props'] == 'second' and k == 1):
            for ex_ in yamlflow.cal_exprs(k):
                if ex_ != b'tricky={}': L.append('    vnacal_property_set(vcp, ci, "%%s", "%s");' % cstr(ex_))
        L.append('    vnacal_new_free(vnp); }')
    for ex_ in yamlflow.global_exprs(job): L.append('  vnacal_property_set(vcp, -1, "%%s", "%s");' % cstr(ex_))
    L += ['  vnacal_set_dprecision(vcp, VNACAL_MAX_PRECISION); vnacal_set_fprecision(vcp, VNACAL_MAX_PRECISION);',
          '  unlink("vf_rt.vnacal"); if (vnacal_save(vcp, "vf_rt.vnacal") != 0) { fprintf(stderr, "VF-ASSERT-FAIL: save failed\\n"); return 1; }',
          '  vnacal_t *w = vnacal_load("vf_rt.vnacal", errfn, NULL); if (w == NULL) { fprintf(stderr, "VF-ASSERT-FAIL: load failed\\n"); return 1; }',
          '  if (vnacal_get_calibration_end(w) != vnacal_get_calibration_end(vcp)) { fprintf(stderr, "VF-ASSERT-FAIL: calibration count\\n"); bad = 1; }',
          '  for (int ci = -1; ci < vnacal_get_calibration_end(vcp); ++ci) {',
          '    if (!same(vnacal_property_get_subtree(vcp, ci, "."), vnacal_property_get_subtree(w, ci, "."))) { fprintf(stderr, "VF-ASSERT-FAIL: property tree %d differs after save and load\\n", ci); bad = 1; }',
          '    if (ci < 0) continue;',
          '    if (strcmp(vnacal_get_name(vcp, ci), vnacal_get_name(w, ci)) != 0 || vnacal_get_type(vcp, ci) != vnacal_get_type(w, ci)) { fprintf(stderr, "VF-ASSERT-FAIL: name / type of calibration %d\\n", ci); bad = 1; }',
          '    double complex mm[2] = {0.3 + 0.1 * I, -0.2}; double complex *mp[1] = {mm}; vnadata_t *d1 = vnadata_alloc(errfn, NULL), *d2 = vnadata_alloc(errfn, NULL);',
          '    if (vnacal_apply_m(vcp, ci, fv, 2, mp, 1, 1, d1) != 0 || vnacal_apply_m(w, ci, fv, 2, mp, 1, 1, d2) != 0) { fprintf(stderr, "VF-ASSERT-FAIL: apply\\n"); bad = 1; }',
          '    else for (int f = 0; f < 2; ++f) if (vnadata_get_cell(d1, f, 0, 0) != vnadata_get_cell(d2, f, 0, 0)) { fprintf(stderr, "VF-ASSERT-FAIL: applied S differs for calibration %d\\n", ci); bad = 1; }',
          '    vnadata_free(d1); vnadata_free(d2); }',
          '  unlink("vf_rt.vnacal"); vnacal_free(w); vnacal_free(vcp); return bad; }']
    return '\n'.join(L) + '\n'
