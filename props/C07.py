from vf.core import Ob

META = dict(
    level='proof',
    bounds='C07.a: precision symbolic over everything vnacal_set_fprecision / vnacal_set_dprecision accept (1..VNACAL_MAX_PRECISION), values symbolic; '
           'the printf family is replaced by the C11 length contract for %.*e, %+.*e, %+a',
    outside='libyaml emitter / parser (binary only); digit exactness of printf / strtod; structural round trip through the YAML document object '
            '(designed as C07.b, not built); legacy version mapping',
    assumptions=['sprintf/asprintf/snprintf length-contract stubs', 'yaml_document_add_scalar stub'],
    explanation='bounded symbolic check of the real add_double / add_complex of vnacal_save.c against the C standard length contract of printf',
)


def obligations(tier):
    return [Ob('C07.a/number-formatting', 'C07_format.c', engine='N', unwind=24, timeout=600,
               functions=['add_double', 'add_complex'], bounds='precision 1..1000 symbolic', stubs=['printf-family length contract', 'yaml_document_add_scalar'],
               what='add_double / add_complex never write beyond their buffer for any accepted precision')]
