from vf.core import Ob

FUNCS = ['vnaproperty_set', 'vnaproperty_vset', 'vnaproperty_delete', 'vnaproperty_vdelete', 'vnaproperty_type', 'vnaproperty_count',
         'vnaproperty_get', 'vnaproperty_keys', 'vnaproperty_get_subtree', 'vnaproperty_set_subtree', 'parse', 'scan', 'parse_and_descend',
         'get_node', 'map_subtree', 'map_delete', 'map_expand', 'map_find_anchor', 'crc32c', 'list_subtree', 'list_insert', 'list_append',
         'list_delete', 'list_check_allocation', 'vnaproperty_free', 'scalar_alloc']

META = dict(
    level='proof',
    bounds='C13.a: pre-state = 12 enumerated trees (<= 4 nodes, depth <= 2); one operation of an enumerated kind (set =v, set #, delete, '
           'set_subtree, set without suffix) with a descriptor of one of 18 grammar forms and enumerated keys (a..c) / subscripts (0..3); the scalar '
           'value byte is symbolic; afterwards ALL observers (type, count, get, keys, get_subtree) on 12 paths are compared with the abstract '
           'document and the tree is deleted under the leak check.  Descriptors are concrete because one symbolic byte reaching scan/parse makes '
           'symbolic execution of the recursive free explode (no verdict in 300 s).',
    outside='trees with more than ~6 nodes or deeper than 3; keys longer than 1 byte; histories of more than one operation beyond the enumerated '
            'pre-states; maps with >= 5 keys (hash growth); vnaproperty_copy; UTF-8',
    assumptions=['allocation never fails', 'strdup/vasprintf stubs copy into fixed buffers', 'ctype stubs implement the C locale',
                 "the library's debugging fill of freed nodes with 'X' bytes is skipped in the solver build"],
    explanation='bounded check of the real vnaproperty.c (CBMC native front end; unwinding assertions on) against an abstract document model',
)

OPN = {0: 'set', 1: 'setnull', 2: 'delete', 3: 'set_subtree', 4: 'set_nosuffix', 5: 'observe', 6: 'trailing'}
US = ['vnaproperty_free:5', 'vnaproperty_free.0:9', 'vnaproperty_free.1:6']


def step(shape, op, form, k1='a', k2='b', i1=0, i2=1, timeout=None):
    return Ob('C13.a/shape%d-%s-form%d-%s%s%d%d' % (shape, OPN[op], form, k1, k2, i1, i2), 'C13_step.c', engine='N',
              defs={'SHAPE': shape, 'OP': op, 'FORM': form, 'VF_STRCAP': 8, 'K1': "'%s'" % k1, 'K2': "'%s'" % k2, 'I1': i1, 'I2': i2},
              unwind=24, unwindset=US, leak=True, functions=FUNCS, timeout=timeout,
              optional_witnesses=['observed existing node', 'observed scalar', 'observed map keys'],
              bounds='SHAPE=%d OP=%s FORM=%d keys %s,%s subscripts %d,%d' % (shape, OPN[op], form, k1, k2, i1, i2),
              stubs=['vasprintf/strdup (fixed buffers)', 'strtol (decimal)', 'ctype (C locale)', "memset(p,'X',n) skipped"],
              what='from tree shape %d, %s with descriptor form %d, then all observers on 12 paths vs the abstract document' % (shape, OPN[op], form))


def variants(form):
    """key / subscript choices that matter for a form"""
    from itertools import product
    comps = {0: 'K', 1: 'KK', 2: 'KI', 3: 'I', 4: 'I', 5: '', 6: '', 7: '', 8: '', 9: 'K', 10: 'I', 11: 'K', 12: 'K', 13: 'IK', 14: 'II',
             15: 'KI', 16: 'K', 17: 'II'}[form]
    ks = [('a', 'b')]; isx = [(0, 1)]
    if 'K' in comps: ks = [('a', 'b'), ('b', 'a'), ('c', 'a')]
    if 'I' in comps: isx = [(0, 0), (1, 1), (2, 0), (3, 2)]
    return [(k[0], k[1], i[0], i[1]) for k, i in product(ks, isx)]


DSOP = {0: 'list_subtree', 1: 'list_insert', 2: 'list_append', 3: 'list_delete', 4: 'map_subtree', 5: 'map_delete'}


def ds(n, op, timeout=None, keyc=None):
    defs = {'N': n, 'OP': op, 'VF_STRCAP': 8}
    if keyc: defs['KEYC'] = "'%s'" % keyc
    return Ob('C13.d/%s-n%d%s' % (DSOP[op], n, '-' + keyc if keyc else ''), 'C13_ds.c', engine='N', defs=defs,
              unwind=13 if op != 5 else 8, unwindset=[] if op != 5 else ['harness.3:13', 'harness.4:13', 'harness.5:13', 'harness.2:13', 'vf_memset.0:13', 'vf_memset.1:7', 'map_expand.0:13', 'vf_realloc_ptrs.0:13'],
              leak=True, timeout=timeout,
              functions=['list_subtree', 'list_insert', 'list_append', 'list_delete', 'list_check_allocation', 'map_subtree', 'map_delete',
                         'map_expand', 'map_find_anchor', 'crc32c'],
              optional_witnesses=['refused list step', 'refused map step', 'accepted map step', 'accepted list step'],
              bounds='pre-state of %d elements; subscript -1..n+2 / key a..f / add flag symbolic' % n,
              stubs=['strdup (fixed buffers)', "memset(p,'X',n) skipped"],
              what='%s from a %d-element container with symbolic subscript/key/add vs the abstract sequence / ordered-set model' % (DSOP[op], n))


MAPSHAPES = [0, 1, 2, 4, 7, 8, 11]      # trees without lists (lists: see C13.ds; API-level list histories do not finish in CBMC)
MAPFORMS = {0: (0, 1, 9, 11, 7, 8), 1: (0, 1, 8), 2: (0, 1, 9, 8, 7, 11), 3: (0, 1, 11, 7)}


def obligations(tier):
    obs = []
    shapes = [0, 2, 4, 8] if tier == 'quick' else MAPSHAPES
    for s in shapes:
        for op in (0, 1, 2, 3):
            for f in MAPFORMS[op]:
                vs = variants(f)
                vs = [v for v in vs if v[2:] == (0, 1) or v[2:] == (0, 0)]
                if tier == 'quick': vs = vs[:1] + vs[-1:]
                for (k1, k2, i1, i2) in vs:
                    obs.append(step(s, op, f, k1, k2, i1, i2, timeout=600))
        obs.append(step(s, 4, 0, timeout=600)); obs.append(step(s, 4, 1, timeout=600))
        obs.append(step(s, 6, 0, timeout=600)); obs.append(step(s, 6, 8, timeout=600))
    for L in ((1, 2, 3) if tier == 'quick' else (1, 2, 3, 4)):
        obs.append(Ob('C13.c/quote_key-len%d' % L, 'C13_quote.c', engine='N', defs={'LEN': L, 'VF_STRCAP': 8}, unwind=12, timeout=900,
                      functions=['vnaproperty_quote_key', 'scan'], bounds='key of %d arbitrary non-NUL bytes' % L,
                      stubs=['malloc/calloc at maximum size with the requested size checked', 'strlen(key) = LEN (asserted)', 'ctype (C locale)'],
                      what='scan(quote_key(key)) reads back exactly key, for every key of %d arbitrary bytes' % L))
    for op in range(5):
        for n in ((0, 1, 2, 3, 8) if op <= 3 else (0, 1, 3, 5)):
            obs.append(ds(n, op, timeout=600))
    for n in (0, 1, 3, 5):
        for k in 'abcdef':
            obs.append(ds(n, 5, timeout=600, keyc=k))
    seen = set(); out = []
    for o in obs:
        if o.id not in seen: seen.add(o.id); out.append(o)
    return out
