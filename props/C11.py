from vf.core import Ob

META = dict(
    level='proof',
    bounds='C11.a: category -2..9, incoming errno 1..120, callback NULL / non-NULL, vasprintf success / failure - all symbolic in one query. '
           'C11.b-d are decided inside the harnesses of C15 (vnadata: refused => unchanged, one callback, EINVAL), C05 (convert), C16 (slot table / '
           'parameters: index returned is honoured, silent queries), C13 (property set/delete refused => unchanged), C10 (range refusals): their '
           'obligations are re-run here under this property id',
    outside='API functions not reached by those harnesses (save/load I/O errors from the OS, vnacal_new_* argument checks beyond C20)',
    assumptions=['vasprintf stub that either fails with -1 or returns a fresh 3-byte string'],
    explanation='bounded symbolic check of the real error-reporting core plus the refused=>unchanged assertions of the object-family harnesses',
)


def obligations(tier):
    obs = [Ob('C11.a/verror', 'C11_verror.c', engine='N', nsrcs=['vnaerr_verror.c'], unwind=8, leak=True, timeout=600,
              functions=['_vnaerr_verror'], bounds='all categories / errno / callback / vasprintf outcomes symbolic',
              stubs=['vasprintf (may fail)'], what='category->errno mapping and single callback for every category')]
    # the refused => unchanged / callback-count / index-honoured assertions live in these harnesses (tagged C11 in their messages)
    import props.C15 as c15, props.C16 as c16, props.C05 as c05, props.C10 as c10
    pick = []
    pick += [o for o in c15.obligations('quick') if any(k in o.id for k in ('init222t1-set_', 'init121', 'init221tm1'))][:12]
    pick += [o for o in c16.obligations('quick') if 'C16.a' in o.id]
    pick += [o for o in c05.obligations('quick') if any(k in o.id for k in ('s2x2-to-t-F2', 's3x3-to-t-F2', '-2x2-to-s-F2', 'I1x2-to-s', 's2x2-to-m1', 's2x2-to-11'))][:12]
    pick += [o for o in c10.obligations('quick') if 'C10.a' in o.id]
    for o in pick:
        o.id = 'C11.b/' + o.id
    return obs + pick
