from vf.core import Ob

META = dict(
    level='proof',
    bounds='C18.a: _vnacal_new_solve_calc_weights on hand-built solve states with 2 column systems holding (2,1), (1,2), (2,2), (1,1), (3,0), (0,2) equations; measured cells, noise floor and '
           'tracking error symbolic; floating multiply/divide/sqrt uninterpreted (data-flow identity, bit-exact)',
    outside='the statistical heart of C18 (rejection rate under Gaussian noise, outlier power, unbiasedness, V-matrix convergence) - no solver statement corresponds to a rate; '
            'the consumers of the weights (solve_simple / solve_auto / calc_pvalue index them in system-major order: checked by reading only); noise-grid interpolation (C10)',
    assumptions=['solve state built by hand in the harness (equation lists, measurement cells)', 'uninterpreted floating products'],
    explanation='bounded symbolic data-flow check of the real weight computation against the per-equation formula',
)


def obligations(tier):
    obs = []
    for e0, e1 in ((2, 1), (1, 2), (2, 2), (1, 1), (3, 0), (0, 2)):
        obs.append(Ob('C18.a/weights-%d+%d' % (e0, e1), 'C18_weights.c', engine='L', uf='all', defs={'EQ0': e0, 'EQ1': e1}, unwind=8, ovr=['vasprintf'], leak=True, timeout=600,
                      functions=['_vnacal_new_solve_calc_weights', '_vnacal_new_solve_next_equation'], bounds='systems with %d and %d equations' % (e0, e1),
                      stubs=['vasprintf', 'uninterpreted fmul/fdiv/fadd/sqrt'], what='weights of %d+%d equations in two systems' % (e0, e1)))
    return obs
