from vf.core import Ob

META = dict(
    level='proof', jobs=8,
    bounds='1-port calibrations (T8, U8; 1x1) with 1..2 frequencies: 0, 1 or 2 of the three needed single-reflect standards, solve (must fail with EDOM), add the rest, solve again, '
           'add_calibration, free; measured values symbolic; numeric kernels stubbed (arbitrary values, full rank)',
    outside='2-port and larger calibrations, other standard kinds, the numeric rank decisions of LU/QR (best effort per the property), identifiability of arbitrary standard subsets '
            '(C20.d of the design), TRL / unknown-parameter solves',
    assumptions=['numeric kernels (_vnacommon_qrsolve*, mldivide, mrdivide) are stubs reporting full rank', 'vnaproperty_delete/copy stubbed', 'vasprintf stub', 'allocation never fails'],
    explanation='bounded symbolic execution of the real add / solve / add_calibration code of a 1-port calibration (clang IR -> ll2c -> CBMC)',
)


def obligations(tier):
    obs = []
    for ct, nm in ((0, 'T8'), (1, 'U8')):
        for nstd in (0, 1, 2, 3):
            for fr in ((1,) if tier == 'quick' else (1, 2)):
                obs.append(Ob('C20.b/%s-1x1-F%d-std%d' % (nm, fr, nstd), 'C20_under.c', engine='L', defs={'CTYPE': ct, 'NSTD': nstd, 'FREQS': fr}, unwind=14,
                              ovr=['vasprintf', 'insque', 'remque', 'qsort'], leak=True, timeout=900,
                              exclude=['vnaproperty.c', 'vnacommon_qrsolve.c', 'vnacommon_qrsolve2.c', 'vnacommon_mldivide.c', 'vnacommon_mrdivide.c', 'vnacommon_qr.c', 'vnacommon_minverse.c'],
                              optional_witnesses=['under-determined refused'],
                              functions=['vnacal_new_alloc', 'vnacal_new_set_frequency_vector', 'vnacal_new_add_single_reflect_m', '_vnacal_new_add_common',
                                         '_vnacal_new_build_equation_terms', 'vnacal_new_solve', '_vnacal_new_solve_internal', '_vnacal_new_solve_simple',
                                         'vnacal_add_calibration', 'vnacal_new_free', 'vnacal_free'],
                              bounds='%s 1x1, %d frequencies, %d of 3 standards before the first solve' % (nm, fr, nstd),
                              stubs=['numeric kernels', 'vnaproperty_delete/copy', 'vasprintf'], what='under-determined solve refused, retry succeeds (%s, %d standards first)' % (nm, nstd)))
    return obs
