"""Calibration configurations for the calibrate-side checks (C01 / C17 / C20): everything that decides control flow is
enumerated here (type, shape, entry functions, forms, port maps, which parameters are predefined); every value is symbolic
in props/calflow.py."""
from props.calflow import Std, Config, T8, U8, TE10, UE10, T16, U16, UE14, E12, NAMES

S = Std
TYPES_T = (T8, TE10, T16)
TYPES_U = (U8, UE10, U16, UE14, E12)
ALL = TYPES_T + TYPES_U


def shapes(typ, maxp):
    out = []
    for r in range(1, maxp + 1):
        for c in range(1, maxp + 1):
            if typ in TYPES_T and r > c: continue
            if typ in TYPES_U and r < c: continue
            out.append((r, c))
    return out


def sym(n): return ('sym', n)


# ---- canonical determining sets -------------------------------------------------------------------------------------

def reflects1(port, sp=('short', 'open', 'match')):
    return [S('single', [port], [x]) for x in sp]


def solt2(a=1, b=2):
    return [S('double', [a, b], ['short', 'short']), S('double', [a, b], ['open', 'open']), S('double', [a, b], ['match', 'match']), S('through', [a, b])]


def full16_2(a=1, b=2):
    """five two-port standards that determine the 16-term model (through + 4 reflect pairs)"""
    return [S('through', [a, b]), S('double', [a, b], ['match', 'match']), S('double', [a, b], ['short', 'open']),
            S('double', [a, b], ['open', 'short']), S('double', [a, b], ['short', 'short']), S('double', [a, b], ['match', 'open'])]


def base_set(typ, rows, cols):
    P = max(rows, cols)
    if P == 1: return reflects1(1)
    if P == 2:
        if typ in (T16, U16): return full16_2()
        return solt2()
    if P == 3:
        if typ in (T16, U16):
            out = []
            for a, b in ((1, 2), (1, 3), (2, 3)): out += full16_2(a, b)
            return out
        out = []
        for a, b in ((1, 2), (1, 3), (2, 3)): out.append(S('through', [a, b]))
        for sp in ('short', 'open', 'match'):
            out.append(S('double', [1, 2], [sp, sp])); out.append(S('single', [3], [sp]))
        return out
    raise ValueError(P)


# ---- variants of one standard (same physical information, other entry form) ---------------------------------------

def clone(st, **kw):
    d = dict(kind=st.kind, ports=list(st.ports), sp=list(st.sp), form=st.form, brows=st.brows, bcols=st.bcols, s_rows=st.s_rows,
             s_cols=st.s_cols, map_null=st.map_null)
    d.update(kw)
    n = S(d['kind'], d['ports'], d['sp'], form=d['form'], brows=d['brows'], bcols=d['bcols'], s_rows=d['s_rows'], s_cols=d['s_cols'],
          map_null=d['map_null'])
    n.sid = st.sid
    return n


def as_line(st):
    if st.kind == 'through': return clone(st, kind='line', sp=['zero', 'one', 'one', 'zero'])
    return None


def as_mapped(st, P, null_map=False):
    """the same S information through vnacal_new_add_mapped_matrix"""
    if st.kind == 'single':
        return clone(st, kind='mapped', sp=list(st.sp), s_rows=1, s_cols=1)
    if st.kind == 'double':
        return clone(st, kind='mapped', sp=[st.sp[0], 'zero', 'zero', st.sp[1]], s_rows=2, s_cols=2,
                     map_null=(null_map and P == 2 and st.ports == [1, 2]))
    if st.kind == 'through':
        return clone(st, kind='mapped', sp=['zero', 'one', 'one', 'zero'], s_rows=2, s_cols=2, map_null=(null_map and P == 2 and st.ports == [1, 2]))
    if st.kind == 'line':
        return clone(st, kind='mapped', s_rows=2, s_cols=2, map_null=(null_map and P == 2 and st.ports == [1, 2]))
    return None


def swapped(st):
    """the same standard with its ports listed in the other order"""
    if st.kind == 'double': return clone(st, ports=st.ports[::-1], sp=st.sp[::-1])
    if st.kind == 'through': return clone(st, ports=st.ports[::-1])
    if st.kind == 'line': return clone(st, ports=st.ports[::-1], sp=[st.sp[3], st.sp[2], st.sp[1], st.sp[0]])
    return None


def abbreviated(st, typ, rows, cols):
    """abbreviated measurement matrix where the type accepts one (T8/TE10/U8/UE10/UE14/E12: s_ports x s_ports)"""
    P = max(rows, cols)
    n = len(st.ports)
    if st.kind == 'mapped' and st.map_null: return None
    if typ in (T16, U16): return None
    br, bc = min(n, rows), min(n, cols)
    if (br, bc) == (rows, cols): return None
    # abbreviated rows / columns must exist in the measurement matrix: ports beyond rows / cols cannot be abbreviated away
    if any(p > rows for p in sorted(st.ports)[:br]) or any(p > cols for p in sorted(st.ports)[:bc]): return None
    if br != n and br != rows: return None
    if bc != n and bc != cols: return None
    return clone(st, brows=br if br == n else rows, bcols=bc if bc == n else cols)


def with_form(st, form): return clone(st, form=form)


def ab_forms(stds, typ, full=False):
    """a/b form for every standard; a fully symbolic reference matrix 'a' for the first multi-port standard (the library's LU of
    'a' forks on every pivot comparison: 8 paths per 2x2 matrix), constant well-conditioned ones for the rest; the per-column
    types (UE14 / E12) take a row vector 'a' (no LU) and get symbolic ones throughout"""
    if typ in (UE14, E12): return [with_form(s, 'ab') for s in stds]
    out = []; done = False
    big = max(max(s.ports) for s in stds) >= 3
    first = 'ab' if ((typ in (T8, U8) or full) and not big) else 'abk'
    if big:        # 3-port calibrations: the LU of a reference matrix scaled by a free factor does not finish (240 s+): constant reference matrices only
        return [with_form(s, 'abc') for s in stds]
    for s in stds:
        if not done and len(s.ports) >= 2: out.append(with_form(s, first)); done = True
        elif not done and s is stds[-1]: out.append(with_form(s, first)); done = True
        else: out.append(with_form(s, 'abk' if (len(out) % 2) else 'abc'))
    return out


def name_of(typ, rows, cols, tag): return '%s-%dx%d-%s' % (NAMES[typ], rows, cols, tag)


def families(typ, rows, cols):
    """dict tag -> list of Std: the canonical set and its re-descriptions (used by C01 one by one and by C17 pairwise)"""
    P = max(rows, cols)
    base = base_set(typ, rows, cols)
    for i, st in enumerate(base): st.sid = 's%d' % i
    fam = {'base': base}
    fam['ab'] = ab_forms(base, typ)
    ln = [as_line(s) or s for s in base]
    if any(s.kind == 'line' for s in ln): fam['line'] = ln
    fam['mapped'] = [as_mapped(s, P) or s for s in base]
    if P == 2: fam['mapped-null'] = [as_mapped(s, P, True) or s for s in base]
    sw = [swapped(s) or s for s in base]
    if P >= 2: fam['swapped'] = sw
    ab = [abbreviated(s, typ, rows, cols) or s for s in base]
    if any(s.brows is not None for s in ab): fam['abbrev'] = ab
    if P >= 3:
        asw = [abbreviated(swapped(s) or s, typ, rows, cols) or (swapped(s) or s) for s in base]
        if any(s.brows is not None for s in asw): fam['abbrev-swapped'] = asw
    fam['reversed'] = base[::-1]
    if P >= 2:
        fam['rotated'] = base[1:] + base[:1]
    # symbolic (user-made scalar) parameters instead of the predefined short / open / match
    k = [0]
    def symsp(s):
        if s.kind in ('single', 'double'):
            sp = []
            for x in s.sp:
                sp.append(sym('g' + {'short': 's', 'open': 'o', 'match': 'm'}.get(x, 'x'))) if x in ('short', 'open') else sp.append(x)
            return clone(s, sp=sp)
        return s
    fam['symbolic-reflects'] = [symsp(s) for s in base]
    if P >= 2:
        fam['symbolic-line'] = [clone(s, kind='line', sp=[sym('l11'), sym('l12'), sym('l21'), sym('l22')]) if s.kind == 'through' and s.ports == [1, 2] else s for s in base]
        fam['ab-mapped'] = ab_forms([as_mapped(s, P) or s for s in base], typ)
        fam['ab-swapped'] = ab_forms([swapped(s) or s for s in base], typ)
    # ---- other determining sets than the textbook recipe (C20) and sets that load the column systems unevenly
    if P == 2 and typ not in (T16, U16):
        singles = []
        for sp in ('short', 'open', 'match'):
            for port in (1, 2): singles.append(S('single', [port], [sp]))
        fam['singles'] = singles + [S('through', [1, 2])]
        la = [sym('la11'), sym('la12'), sym('la21'), sym('la22')]; lb = [sym('lb11'), sym('lb12'), sym('lb21'), sym('lb22')]
        fam['lines-only'] = [S('through', [1, 2]), S('line', [1, 2], la), S('line', [1, 2], lb)]
        fam['uneven'] = base + [S('single', [1], [sym('gx')])]
        fam['uneven2'] = [S('single', [2], [sym('gy')])] + base + [S('single', [2], [sym('gx')])]
        fam['redundant'] = base + [S('line', [2, 1], la), S('double', [2, 1], ['open', 'short'])]
    if P == 2 and typ in (T16, U16):
        la = [sym('la11'), sym('la12'), sym('la21'), sym('la22')]
        fam['redundant'] = base + [S('line', [2, 1], la)]
    return fam


QUICK3 = {(T8, 3, 3): ('base', 'abbrev', 'abbrev-swapped'), (U8, 3, 3): ('base', 'abbrev-swapped'), (TE10, 2, 3): ('base', 'abbrev-swapped'),
          (UE14, 3, 2): ('base', 'abbrev-swapped'), (E12, 3, 3): ('base', 'swapped')}


def weighted(tier):
    """measurement-error model enabled (C18 weights through the real calc_weights + solve_simple)"""
    out = []
    for typ in (t for t in ALL if t != E12):         # E12 = UE14 internally; its conversion adds undecided branches under weights
        for rows, cols in shapes(typ, 2):
            fam = families(typ, rows, cols)
            heavy = typ in (TE10, UE10, T16, U16) and max(rows, cols) == 2      # leakage / 16-term systems with weights: z3 identities of minutes each
            for tag in (('base',) if heavy and tier == 'quick' else ('base', 'uneven', 'uneven2', 'redundant')):
                if tag in fam: out.append(Config(typ, rows, cols, fam[tag], name=name_of(typ, rows, cols, 'weighted-' + tag), m_error=True))
    return out


def configs(tier):
    maxp = 2 if tier == 'quick' else 3
    out = weighted(tier)
    if tier == 'quick':
        for (typ, rows, cols), tags in QUICK3.items():
            fam = families(typ, rows, cols)
            for tag in tags:
                if tag in fam: out.append(Config(typ, rows, cols, fam[tag], name=name_of(typ, rows, cols, tag)))
    for typ in ALL:
        for rows, cols in shapes(typ, maxp):
            fam = families(typ, rows, cols)
            for tag, stds in fam.items():
                out.append(Config(typ, rows, cols, stds, name=name_of(typ, rows, cols, tag)))
    return out


EQUIVALENT = ('abbrev-swapped', 'ab', 'line', 'mapped', 'mapped-null', 'swapped', 'abbrev', 'reversed', 'rotated', 'ab-mapped', 'ab-swapped')


def pairs(tier):
    """(base, re-description) configuration names that describe the same physical information (C17)"""
    names = set(c.name for c in configs(tier))
    out = []
    for c in configs(tier):
        if not c.name.endswith('-base'): continue
        stem = c.name[:-len('base')]
        for t in EQUIVALENT:
            # with leakage terms, a full matrix also carries the leakage readings of the unconnected ports, which the abbreviated one
            # omits: not the same information, so not a C17 pair
            if t.startswith('abbrev') and c.typ in (TE10, UE10, UE14, E12): continue
            if stem + t in names: out.append((c.name, stem + t))
    return out


_CACHE = {}
def by_name(name, tier):
    if tier not in _CACHE: _CACHE[tier] = {c.name: c for c in configs(tier)}
    return _CACHE[tier][name]
