"""Round trips through the YAML DOCUMENT object on the real code (vf/irx.py + vf/yamlmodel.py).

C07.b  vnacal_save -> vnacal_load: calibrations built by the real vnacal_new_* flow with symbolic error terms (solver results are fresh
       symbols) and property trees, saved by the real vnacal_save into the modelled document / file and loaded by the real vnacal_load:
       the loaded vnacal_t has the same calibration_end, and per calibration the same name, type, dimensions, frequencies, z0, every
       error term (z3: equal for all values), the same global and per-calibration property trees (node kinds, keys in order, list
       order, nulls, scalar bytes); a second save of the loaded object writes the same document.
C14    vnaproperty_export_yaml_to_file -> vnaproperty_import_yaml_from_file / _from_string on trees built through the public API
       (maps, lists, nulls, nested, keys and scalars that look like YAML syntax / numbers / booleans / null): the imported tree
       equals the exported one node by node.
libyaml itself (emitter text, parser, quoting, resolution of plain scalars) is a binary without source: its emitter-then-parser is
modelled as the identity on documents and is outside both claims.
"""
import os, re, json, time
from fractions import Fraction
from vf import core


def tree_of(it, call, icall, root):
    """observable tree under a vnaproperty_t* through the public observers: ('null',) | ('scalar', bytes) | ('map', [(key, sub)..]) | ('list', [sub..])"""
    from irx import NULL
    from irsym import Ptr
    from irparse import TPtr, TInt
    def sub(r, expr):
        a = it.alloc(None, 8, 'input'); it.store(a, r, 8)
        return a, it.static_str(expr)
    def walk(r, depth=0):
        if depth > 20: raise RuntimeError('tree too deep')
        if r.obj is None: return ('null',)
        a, dot = sub(r, b'.')
        t = icall('vnaproperty_type', [r, dot])
        if t == ord('s'):
            v = call('vnaproperty_get', [r, dot])
            return ('scalar', it.cstr(v) if v.obj is not None else None)
        if t == ord('m'):
            kv = call('vnaproperty_keys', [r, dot])
            keys = []
            i = 0
            while True:
                kp = it.load(Ptr(kv.obj, kv.off + 8 * i), TPtr(TInt(8)))
                if kp.obj is None: break
                keys.append(it.cstr(kp)); i += 1
            call('free', [kv])
            out = []
            for k in keys:
                q = call('vnaproperty_quote_key', [it.static_str(k)])
                qs = it.cstr(q); call('free', [q])
                s_ = call('vnaproperty_get_subtree', [r, it.static_str(b'%s'), it.static_str(qs)])
                out.append((k, walk(s_, depth + 1)))
            return ('map', out)
        if t == ord('l'):
            n = icall('vnaproperty_count', [r, dot])
            out = []
            for i in range(n):
                s_ = call('vnaproperty_get_subtree', [r, it.static_str(b'[%d]'), i])
                out.append(walk(s_, depth + 1))
            return ('list', out)
        if t == ord('n') or t == -1: return ('null',)
        raise RuntimeError('vnaproperty_type returned %r' % t)
    return walk(root)


# ---------------------------------------------------------------------------------------------------------------------
# C07.b

def c07_jobs(tier):
    J = []
    def add(i, cals, prec='default', F=2, props=True): J.append({'id': i, 'cals': cals, 'prec': prec, 'F': F, 'props': props})
    add('one-T8-1x1', ['T8-1x1-base']); add('one-E12-2x2', ['E12-2x2-base']); add('one-UE14-2x1', ['UE14-2x1-base']); add('one-T16-2x2', ['T16-2x2-base'])
    add('one-TE10-1x2', ['TE10-1x2-base']); add('one-U16-2x1', ['U16-2x1-base'])
    add('three', ['T8-2x2-base', 'UE10-2x2-base', 'E12-1x1-base']); add('three-maxprec', ['U8-2x2-base', 'TE10-2x2-base', 'UE14-2x2-base'], prec='max')
    add('two-noprops-second', ['T8-1x1-base', 'U8-1x1-base'], props='first'); add('two-noprops-first', ['T8-1x1-base', 'U8-1x1-base'], props='second')
    add('one-F1', ['U8-2x2-base'], F=1); add('one-F3-prec3', ['T8-1x1-base'], F=3, prec=4)
    for t in C14_TREES:          # the property trees of the C14 family as global properties of a calibration file
        J.append({'id': 'globaltree-' + t, 'cals': ['T8-1x1-base'], 'prec': 'default', 'F': 1, 'props': False, 'gtree': t})
    if tier != 'quick':
        for t in ('T8', 'U8', 'TE10', 'UE10', 'T16', 'U16', 'UE14', 'E12'):
            add('one-%s-3x3' % t, ['%s-3x3-base' % t])
    return J


def global_exprs(job):
    return C14_TREES[job['gtree']] if job.get('gtree') else (b'owner=lab 7', b'history[0]=created', b'history[1]#', b'history[2]=saved: yes', b'limits.fmin=1e9', b'limits.true=false')


def cal_exprs(k):
    return (b'serial=SN-%d' % k, b'ports[0]=in', b'ports[1]=out', b'setup.cable.length=1.5', b'setup.notes#', b'\\1key=- yes', b'tricky={}')


def c07_run_once(mod, job, choices, holder):
    import z3, irsym, irx, yamlmodel
    from irx import NULL, sgn, Special
    from irsym import Rat, Ptr
    from irparse import TFloat, TPtr, TInt
    from props import calflow as cf, calcfg
    from props.calflow import C, csym, cconst
    flow = cf.Flow(mod); it = flow.it; holder['flow'] = flow
    it.choices = list(choices); it.generic = True
    ym = yamlmodel.YamlModel(it)
    res = {'queries': 0, 'unsat': 0, 'sat': [], 'unknown': []}
    call = flow.call; icall = flow.icall
    def check(cond, q, detail=None):
        res['queries'] += 1
        if cond: res['unsat'] += 1
        else: res['sat'].append({'q': q, 'detail': detail})
        return cond
    def prove(exprs, q):
        ex = []
        for e in exprs:
            if isinstance(e, C): ex += [e.re, e.im]
            else: ex.append(e)
        if any(isinstance(e, Special) for e in ex): res['sat'].append({'q': q, 'detail': 'non-finite value'}); return False
        st, mdl = irsym.check_zero(it, ex, timeout_ms=60000)
        res['queries'] += 1
        if st == 'unsat': res['unsat'] += 1; return True
        if st == 'sat': res['sat'].append({'q': q, 'model': {d.name(): str(mdl[d]) for d in list(mdl.decls())[:12]}}); return False
        res['unknown'].append({'q': q, 'why': str(mdl)}); return None
    F = job['F']
    freqs = [Fraction(10 ** 9) * (k + 1) + Fraction(k, 8) for k in range(F)]
    flow.create()
    vcp = flow.vcp
    if job['prec'] == 'max': assert icall('vnacal_set_fprecision', [vcp, 1000]) == 0 and icall('vnacal_set_dprecision', [vcp, 1000]) == 0
    elif job['prec'] != 'default': assert icall('vnacal_set_dprecision', [vcp, job['prec']]) == 0
    expect = []
    tier = job.get('tier', 'quick')
    for k, cname in enumerate(job['cals']):
        cfg = calcfg.by_name(cname, 'thorough' if '3x3' in cname else 'quick')
        typ = cf.E12U if cfg.typ == cf.E12 else cfg.typ
        L = cf.layout_doc(typ, cfg.rows, cfg.cols)
        flow.new_alloc(cfg.typ, cfg.rows, cfg.cols, F)
        assert flow.set_frequencies(freqs) == 0
        handles = {}
        def val(spec, tag_): return cconst(cf.PRE[spec][1]) if isinstance(spec, str) else csym('p%d_%s' % (k, spec[1]))
        for j, st in enumerate(cfg.stds):
            sm = cf.std_model(cfg, st, j, val)
            per_f = [cf.oracle_measurements(cfg, st, 100 * k + j, sm, symbolic=True, mvalue=lambda r, c, fi=fi: csym('m%d_%d_%d%d_f%d' % (k, j, r, c, fi))) for fi in range(F)]
            mvals = [[pf[0][i] for pf in per_f] for i in range(len(per_f[0][0]))] if F > 1 else per_f[0][0]
            assert cf.add_standard(flow, cfg, st, j, mvals, None, handles, val) == 0
        n0 = len(flow.captured)
        flow.xname = lambda q, k=k, n0=n0: 'c%d_%d' % (k, q - n0)
        assert flow.solve() == 0, it.errors[-1:]
        name = ('cal %d: %s' % (k, cname)).encode()
        n_out = L['el'] + L['el_terms'] if cfg.typ != cf.E12 else 3 * cfg.rows * cfg.cols
        terms = [cf.read_error_terms(flow, n_out, f) for f in range(F)]
        ci = icall('vnacal_add_calibration', [vcp, it.static_str(name), flow.vnp])
        check(ci == k, 'vnacal_add_calibration returns the next index', ci)
        with_props = job['props'] is True or (job['props'] == 'first' and k == 0) or (job['props'] == 'second' and k == 1)
        if with_props:
            for ex_ in cal_exprs(k):
                rcp = icall('vnacal_property_set', [vcp, ci, it.static_str(b'%s'), it.static_str(ex_)])
                if rcp != 0 and ex_ != b'tricky={}': res['sat'].append({'q': 'vnacal_property_set(%r) accepted' % ex_})
        expect.append({'name': name, 'type': cfg.typ, 'rows': cfg.rows, 'cols': cfg.cols, 'terms': terms, 'n': n_out})
        call('vnacal_new_free', [flow.vnp])
    gl = global_exprs(job)
    for ex_ in gl:
        rcp = icall('vnacal_property_set', [vcp, 0xffffffff, it.static_str(b'%s'), it.static_str(ex_)])
        if rcp != 0: res['sat'].append({'q': 'vnacal_property_set(global, %r) accepted' % ex_})
    def prop_root(v, ci): return call('vnacal_property_get_subtree', [v, ci & 0xffffffff, it.static_str(b'.')])
    ptrees = [tree_of(it, call, icall, prop_root(vcp, ci)) for ci in range(-1, len(expect))]
    fn = it.static_str(b'cal.vnacal')
    it.set_errno(0)
    if not check(icall('vnacal_save', [vcp, fn]) == 0, 'vnacal_save succeeds', it.errors[-1:]): return res
    doc1 = bytes(it.fs[b'cal.vnacal'])
    res['file_bytes'] = len(doc1); res['placeholders'] = len(it.placeholders)
    it.set_errno(0)
    v2 = call('vnacal_load', [fn, NULL, NULL])
    if not check(v2.obj is not None, 'vnacal_load accepts what vnacal_save wrote', 'errno %d %s' % (it.get_errno(), it.errors[-1:])): return res
    check(icall('vnacal_get_calibration_end', [v2]) == len(expect), 'same number of calibrations, same order', icall('vnacal_get_calibration_end', [v2]))
    for ci, e in enumerate(expect):
        nm = call('vnacal_get_name', [v2, ci])
        check(nm.obj is not None and it.cstr(nm) == e['name'], 'calibration %d: name' % ci, None if nm.obj is None else it.cstr(nm))
        check(icall('vnacal_get_type', [v2, ci]) == e['type'], 'calibration %d: type' % ci, icall('vnacal_get_type', [v2, ci]))
        check((icall('vnacal_get_rows', [v2, ci]), icall('vnacal_get_columns', [v2, ci])) == (e['rows'], e['cols']), 'calibration %d: dimensions' % ci)
        if not check(icall('vnacal_get_frequencies', [v2, ci]) == F, 'calibration %d: frequency count' % ci): continue
        fv = call('vnacal_get_frequency_vector', [v2, ci])
        fl = [it.load(Ptr(fv.obj, fv.off + 8 * f), TFloat('double')) for f in range(F)]
        if job['prec'] == 'max': prove([fl[f] - Rat(freqs[f], Fraction(1)) for f in range(F)], 'calibration %d: frequencies bit-exact at maximum precision' % ci)
        else: check(all(abs(float(fl[f].value()) - float(freqs[f])) <= 5e-7 * float(freqs[f]) for f in range(F)), 'calibration %d: frequencies to the saved precision' % ci, [str(x.value()) for x in fl])
        z = call('vnacal_get_z0', [v2, ci]); prove([C(z[0], z[1]) - cconst(50)], 'calibration %d: z0' % ci)
        calp = call('_vnacal_get_calibration', [v2, ci])
        for f in range(F):
            got = cf.read_terms_of_calibration(it, calp, e['n'], f)
            prove([a - b for a, b in zip(got, e['terms'][f])], 'calibration %d: all %d error terms at frequency %d' % (ci, e['n'], f))
    for k, ci in enumerate(range(-1, len(expect))):
        t2 = tree_of(it, call, icall, prop_root(v2, ci))
        check(t2 == ptrees[k], '%s property tree survives' % ('global' if ci < 0 else 'calibration %d' % ci), {'saved': str(ptrees[k])[:300], 'loaded': str(t2)[:300]})
    # a second save of the loaded object writes the same document
    fn2 = it.static_str(b'cal2.vnacal')
    if job['prec'] == 'max': icall('vnacal_set_fprecision', [v2, 1000]); icall('vnacal_set_dprecision', [v2, 1000])
    elif job['prec'] != 'default': icall('vnacal_set_dprecision', [v2, job['prec']])
    if check(icall('vnacal_save', [v2, fn2]) == 0, 'the loaded object can be saved again'):
        def norm(b):
            # placeholders are numbered in printing order: compare documents after mapping every placeholder to the symbol it stands for
            out = []
            for tok in re.split(rb'([+-]?(?:0x[0-9a-fA-F.]+p[+-]?\d+|\d+\.\d+(?:e[+-]\d+)?))', b):
                try:
                    t = tok.decode().lstrip('+-')
                    v = Fraction(float.fromhex(t)) if t.lower().startswith('0x') else Fraction(t)
                    ph = it.placeholders.get(v)
                    out.append(('S', str(ph[0].n), str(ph[0].d)) if ph is not None else tok)
                except Exception:
                    out.append(tok)
            return out
        if job['prec'] in ('default', 'max'):
            check(norm(doc1) == norm(bytes(it.fs[b'cal2.vnacal'])), 'save(load(save(x))) writes the same document as save(x)')
    call('vnacal_free', [v2]); call('vnacal_free', [vcp])
    leaks = it.live_heap()
    check(not leaks, 'nothing stays allocated after vnacal_free of both objects (libyaml objects included)', '%d objects; yaml tokens alive: %s' % (len(leaks), sorted(k_[0] for k_ in ym.__dict__.get('tokens', {}))))
    return res


# ---------------------------------------------------------------------------------------------------------------------
# C14

C14_TREES = {
    'flat-map': [b'a=1', b'b=two words', b'c#'],
    'nested': [b'x.y.z=deep', b'x.y.w#', b'x.list[0]=first', b'x.list[1].k=v', b'x.list[2]#', b'top=level'],
    'lists': [b'l[0]=a', b'l[1]=b', b'l[2]#', b'l[3]#', b'm[0][0]=00', b'm[0][1]#', b'm[1][0]#', b'm[1][1]=11'],
    'yaml-looking-scalars': [b'n=~', b't=true', b'f=no', b'num=1e3', b'neg=-1', b'colon=a: b', b'hash=a #b', b'dash=- x', b'q="quoted"', b'empty=', b'brace={x}', b'star=*a', b'amp=&a', b'bang=!t', b'pct=%d', b'at=@x'],
    'keys-needing-quotes': [b'\\2port=x', b'\\-20dB=y', b'\\ lead=z', b'a\\.b=dot', b'a\\[0\\]=brk', b'k\\=v=eq', b'sp\\ ace=s', b'null=~', b'true=t'],
    'trailing-nulls': [b'l[0]=a', b'l[1]#', b'l[2]#', b'only[0]#', b'only[1]#', b'rows[0][0]=x', b'rows[0][1]#', b'rows[1][0]#', b'rows[1][1]#'],
    'type-changes': [b'ports=2', b'ports[0]=in', b'ports[1]=out', b'm=1', b'm.k=v', b'l[0]=a', b'l[1].x=y', b'l=scalar again', b'mm.k=v', b'mm[0]=list now', b'mm[0][0]=deeper', b'n#', b'n.sub=1'],
    'root-scalar': [b'.=just a scalar'],
    'root-list': [b'[0]=a', b'[1].k=v', b'[2]#'],
    'utf8': ['grüß=äöü Ω'.encode('utf-8'), 'µ=μ'.encode('utf-8')],
}


def c14_run_once(mod, job, choices, holder):
    import irx, yamlmodel
    from irx import XInterp, NULL, sgn
    from irsym import Ptr
    it = XInterp(mod); it.generic = True; it.choices = list(choices)
    class H: pass
    h = H(); h.it = it; holder['flow'] = h
    ym = yamlmodel.YamlModel(it)
    res = {'queries': 0, 'unsat': 0, 'sat': [], 'unknown': []}
    def call(n, a):
        f = it.m.funcs.get('@' + n)
        if f is not None and len(a) > len(f.pnames):
            k = len(f.pnames); return it.call('@' + n, list(a[:k]), list(a[k:]))
        return it.call('@' + n, a)
    icall = lambda n, a: sgn(call(n, a) & 0xffffffff, 32)
    def check(cond, q, detail=None):
        res['queries'] += 1
        if cond: res['unsat'] += 1
        else: res['sat'].append({'q': q, 'detail': detail})
        return cond
    root = it.alloc(None, 8, 'input'); it.store(root, NULL, 8)
    for ex_ in C14_TREES[job['tree']]:
        rc = icall('vnaproperty_set', [root, it.static_str(b'%s'), it.static_str(ex_)])
        if rc != 0: res['sat'].append({'q': 'building the tree: vnaproperty_set(%r)' % ex_, 'detail': it.get_errno()}); return res
    from irparse import TPtr, TInt
    r0 = it.load(root, TPtr(TInt(8)))
    t0 = tree_of(it, call, icall, r0)
    fp = call('fopen', [it.static_str(b'p.yaml'), it.static_str(b'w')])
    rc = icall('vnaproperty_export_yaml_to_file', [r0, fp, it.static_str(b'p.yaml'), NULL, NULL])
    call('fclose', [fp])
    if not check(rc == 0, 'vnaproperty_export_yaml_to_file succeeds', it.get_errno()): return res
    res['file_bytes'] = len(it.fs[b'p.yaml'])
    t0b = tree_of(it, call, icall, it.load(root, TPtr(TInt(8))))
    check(t0b == t0, 'export does not change the tree')
    # import from file
    root2 = it.alloc(None, 8, 'input'); it.store(root2, NULL, 8)
    fp = call('fopen', [it.static_str(b'p.yaml'), it.static_str(b'r')])
    rc = icall('vnaproperty_import_yaml_from_file', [root2, fp, it.static_str(b'p.yaml'), NULL, NULL])
    call('fclose', [fp])
    if check(rc == 0, 'vnaproperty_import_yaml_from_file accepts the exported document', it.get_errno()):
        t2 = tree_of(it, call, icall, it.load(root2, TPtr(TInt(8))))
        check(t2 == t0, 'import from file reproduces the tree (kinds, keys in order, list order, nulls, scalar bytes)', {'exported': str(t0)[:400], 'imported': str(t2)[:400]})
    # import from string
    root3 = it.alloc(None, 8, 'input'); it.store(root3, NULL, 8)
    txt = it.new_cstr(bytes(it.fs[b'p.yaml']), 'input')
    rc = icall('vnaproperty_import_yaml_from_string', [root3, txt, NULL, NULL])
    if check(rc == 0, 'vnaproperty_import_yaml_from_string accepts the exported document', it.get_errno()):
        t3 = tree_of(it, call, icall, it.load(root3, TPtr(TInt(8))))
        check(t3 == t0, 'import from string reproduces the tree', {'exported': str(t0)[:400], 'imported': str(t3)[:400]})
    for r_ in (root, root2, root3):
        icall('vnaproperty_delete', [r_, it.static_str(b'.')])
    leaks = it.live_heap()
    check(not leaks, 'nothing stays allocated after deleting the three trees (libyaml objects included)', '%d objects; yaml tokens alive: %s' % (len(leaks), sorted(k_[0] for k_ in ym.__dict__.get('tokens', {}))))
    return res


def worker(mod, job):
    import irx
    from props.calflow import all_paths
    out = {'id': job['id'], 'paths': 0, 'queries': 0, 'unsat': 0, 'sat': [], 'unknown': [], 'fault': None}
    fn = c07_run_once if job['kind'] == 'C07' else c14_run_once
    try:
        rs = all_paths(lambda ch, h: fn(mod, job, ch, h), max_paths=16)
    except (irx.MemFault, irx.LibAbort) as e:
        out['fault'] = '%s: %s' % (type(e).__name__, e); return out
    for r in rs:
        out['paths'] += 1; out['queries'] += r['queries']; out['unsat'] += r['unsat']; out['sat'] += r['sat']; out['unknown'] += r['unknown']
    out['file_bytes'] = rs[0].get('file_bytes') if rs else None
    return out
