from vf.core import Ob

META = dict(
    level='fault_enumeration',
    bounds='vnadata: object prepared by init(shape1) [optionally in per-frequency z0 mode], then ONE faulted call (resize / init to shape2, set_fz0, set_z0, '
           'add_frequency) in which the K-th allocation fails; shapes over dimensions 0..2, K = 0..7 (quick) / 0..11 (thorough) - all enumerated; values symbolic',
    outside='allocations inside libyaml / stdio; vnaproperty, vnacal_new, parameter and calibration objects (not built); more than one failure; fault indices are '
            'enumerated (a symbolic fault index makes every later allocation symbolic and exhausts memory)',
    assumptions=['every malloc/calloc/realloc of the library goes through the fault hook (ll2c --alloc-hook)', 'vasprintf stub does not fail'],
    nontrivial_witness='faulted call failed cleanly',
    rule='one CBMC run per (shape1, mode, operation, shape2, K); non-trivial = the fault index hits an allocation of the call',
    explanation='bounded fault injection into the real vnadata code under CBMC: ENOMEM or success, state preserved, repeat equals fault-free run, no leak',
)
OPN = {0: 'resize', 1: 'set_fz0', 2: 'set_z0', 3: 'add_frequency', 4: 'init'}


def obligations(tier):
    obs = []
    cases = []
    for fz in (0, 1):
        cases += [((1, 1, 1), fz, 0, (2, 2, 2)), ((2, 2, 1), fz, 0, (2, 2, 2)), ((1, 2, 2), fz, 0, (2, 2, 2)), ((2, 2, 2), fz, 4, (1, 1, 1))]
        cases += [((2, 2, 2), fz, 1, (0, 0, 0)), ((2, 2, 2), fz, 2, (0, 0, 0))]
    cases += [((0, 0, 0), 0, 0, (2, 2, 2)), ((0, 0, 0), 0, 4, (2, 2, 2))]
    if tier != 'quick':
        cases += [((1, 1, 1), fz, 0, s2) for fz in (0, 1) for s2 in ((2, 1, 1), (1, 2, 1), (1, 1, 2), (2, 2, 1))]
        cases += [((1, 1, 2), 1, 3, (0, 0, 0)), ((1, 1, 0), 0, 3, (0, 0, 0))]
    for s1, fz, op, s2 in cases:
        for k in range(8 if tier == 'quick' else 12):
            nm = 'init%d%d%d%s-%s%s-k%d' % (s1 + ('fz' if fz else '',) + (OPN[op], '%d%d%d' % s2 if op in (0, 4) else '', k))
            obs.append(Ob('C12/' + nm, 'C12_vnadata.c', engine='L', alloc_hook=True, ovr=['vasprintf'], leak=True, unwind=60 if op == 3 else 10, timeout=600,
                          defs={'R1': s1[0], 'C1': s1[1], 'F1': s1[2], 'FZ': fz, 'OP2': op, 'R2': s2[0], 'C2': s2[1], 'F2': s2[2], 'K': k},
                          optional_witnesses=['faulted call failed cleanly', 'fault index beyond the call\'s allocations'],
                          functions=['vnadata_resize', 'vnadata_init', '_vnadata_extend_p', '_vnadata_extend_m', '_vnadata_extend_f', '_vnadata_convert_to_fz0',
                                     '_vnadata_convert_to_z0', 'vnadata_set_fz0', 'vnadata_set_z0', 'vnadata_add_frequency'],
                          bounds=nm, stubs=['vasprintf', 'allocation fault hook'], what='allocation %d of %s fails' % (k, nm)))
    return obs
