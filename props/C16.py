from vf.core import Ob

META = dict(
    level='proof',
    bounds='C16.a: slot tables of allocation 0..3 (quick) / 0..4 and 8 (thorough) in EVERY occupancy pattern (symbolic), one operation with symbolic '
           'name (a..e) / index (-1..n+1): an inductive step, so histories of any length over such tables are covered',
    outside='tables larger than the allocation bound; calibration contents (C07); properties of calibrations (C13)',
    assumptions=['allocation never fails', 'vasprintf stub', 'vnaproperty_delete stubbed (calibrations without properties)'],
    explanation='bounded symbolic one-step (inductive) check of the real slot-table code against a table model',
)
OPN = {0: 'add', 1: 'delete', 2: 'query'}
F = ['_vnacal_add_calibration_common', 'vnacal_add_calibration', 'vnacal_delete_calibration', 'vnacal_find_calibration', 'vnacal_get_name',
     'vnacal_get_calibration_end', '_vnacal_get_calibration', '_vnacal_calibration_free']


def obligations(tier):
    obs = []
    for alloc in ((0, 1, 2, 3) if tier == 'quick' else (0, 1, 2, 3, 4, 8)):
        for op in range(3):
            opt = []
            if alloc == 0: opt = ['replaced', 'free slot', 'deleted', 'named']
            obs.append(Ob('C16.a/%s-alloc%d' % (OPN[op], alloc), 'C16_slots.c', engine='L', defs={'ALLOC': alloc, 'OP': op},
                          unwind=2 * max(alloc, 4) + 2, ovr=['vasprintf'], leak=True, exclude=['vnaproperty.c'], timeout=900,
                          optional_witnesses=opt, functions=F, bounds='ALLOC=%d, occupancy/name/index symbolic' % alloc,
                          stubs=['vasprintf', 'vnaproperty_delete'],
                          what='%s on an arbitrary slot table of allocation %d' % (OPN[op], alloc)))
    from itertools import product
    KN = 'sudq'
    # (op, handle) steps; handles that matter: -1, 0 (predefined), 3, 4, 5 (first user slots), 7 (never allocated)
    def expand(kinds, hs):
        out = [[]]
        for k in kinds:
            out = [o + [(k, h)] for o in out for h in ([0] if k == 0 else hs)]
        return out
    scen = []
    hs_q = (3, 4)
    for kinds in [(0, 2, 0), (0, 1, 2), (0, 1, 3), (0, 2, 2), (0, 2, 3), (1, 2, 3), (0, 0, 2, 1, 2), (0, 1, 2, 2, 3), (0, 1, 1, 2, 2), (0, 1, 2, 0, 2)]:
        scen += expand(kinds, hs_q if tier == 'quick' else (-1, 0, 3, 4, 5, 7))
    if tier != 'quick':
        for kinds in product(range(4), repeat=4):
            scen += expand(kinds, (0, 3, 4))
    if tier == 'quick':
        scen = scen[:90]
    seen = set()
    for sc in scen:
        nm = '-'.join('%s%s' % (KN[k], '' if k == 0 else ('m1' if h < 0 else str(h))) for k, h in sc)
        if nm in seen: continue
        seen.add(nm)
        obs.append(Ob('C16.b/params-%s' % nm, 'C16_params.c', engine='L',
                      defs={'DEPTH': len(sc), 'PLAN': '{' + ','.join('{%d,%d}' % st for st in sc) + '}'},
                      unwind=10, ovr=['vasprintf'], leak=True, exclude=['vnaproperty.c'], timeout=900,
                      optional_witnesses=['refused make', 'deleted', 'value read'],
                      functions=['vnacal_create', 'vnacal_free', 'vnacal_make_scalar_parameter', 'vnacal_make_unknown_parameter', 'vnacal_delete_parameter',
                                 'vnacal_get_parameter_value', '_vnacal_alloc_parameter', '_vnacal_free_parameter', '_vnacal_release_parameter',
                                 '_vnacal_teardown_parameter_collection', '_vnacal_get_parameter'],
                      bounds='history %s (s=make_scalar uN=make_unknown(N) dN=delete(N) qN=query(N)); scalar values symbolic' % nm,
                      stubs=['vasprintf', 'vnaproperty_delete'], what='parameter-handle history %s from vnacal_create to vnacal_free vs the table model' % nm))
    return obs
