"""C04: every network-parameter conversion yields the same physical network.
Engine R: the real vnaconv_*.c files -> clang-14 -O0 IR -> mem2reg -> vf/irsym.py (symbolic interpreter, exact field R) -> z3.
"""
import os, sys, re, json, time, subprocess, itertools
from concurrent.futures import ProcessPoolExecutor
sys.path.insert(0, os.path.join(os.path.dirname(os.path.dirname(os.path.abspath(__file__))), 'oracle'))
from vf import core

L = 'stuzyhgab'


def build_ir(ctx, files, tag):
    libll = ctx.lib_ll()
    al = os.path.join(ctx.dir, tag + '.ll'); ml = os.path.join(ctx.dir, tag + '_m2r.ll')
    r = subprocess.run(['llvm-link-14', '-S'] + [libll[f] for f in files] + ['-o', al], capture_output=True, text=True)
    if r.returncode != 0: raise RuntimeError(r.stderr[-2000:])
    r = subprocess.run(['opt-14', '-S', '-mem2reg', al, '-o', ml], capture_output=True, text=True)
    if r.returncode != 0: raise RuntimeError(r.stderr[-2000:])
    return ml


def _worker(job):
    """one conversion function: returns a result dict (runs in a subprocess: z3 contexts are not thread safe)"""
    import z3
    from irparse import Module
    import irsym
    from irsym import Rat, Interp, Ptr
    import vnaconv_rel as R
    irfile, fname, X, Y, kind = job['ir'], job['fn'], job['x'], job['y'], job['kind']
    t0 = time.time()
    mod = Module(open(irfile).read())
    res = {'fn': fname, 'kind': kind, 'queries': 0, 'unsat': 0, 'details': [], 'nargs': len(mod.funcs['@' + fname].ftype.args)}

    def sym_c(it, name):
        return R.C(Rat(z3.Real(name + 'r')), Rat(z3.Real(name + 'i')))

    def setup(it, alias):
        # inputs: 2x2 matrix m, reference impedances z0_k = k_k^2 + j y_k (k_k > 0)
        kk = [Rat(z3.Real('k%d' % j)) for j in range(2)]
        yy = [Rat(z3.Real('y%d' % j)) for j in range(2)]
        z0 = []
        for j in range(2):
            re = kk[j] * kk[j]
            key = (Rat._k(re.n), Rat._k(re.d)); it.known_sqrt[key] = kk[j]; it.nonneg.add(key)
            z0.append(R.C(re, yy[j]))
        M = [[sym_c(it, 'm%d%d' % (r, c)) for c in range(2)] for r in range(2)]
        pin = it.alloc('in'); pz = it.alloc('z0')
        for r in range(2):
            for c in range(2):
                it.store(Ptr('in', 16 * (2 * r + c)), M[r][c].re); it.store(Ptr('in', 16 * (2 * r + c) + 8), M[r][c].im)
        for j in range(2):
            it.store(Ptr('z0', 16 * j), z0[j].re); it.store(Ptr('z0', 16 * j + 8), z0[j].im)
        pout = pin if alias else it.alloc('out')
        f = mod.funcs['@' + fname]
        args = [pin, pout] + ([pz] if len(f.ftype.args) == 3 else [])
        it.run(f, args)
        ncell = 2 if kind == 'zi' else 4
        from irparse import TFloat
        out = [R.C(it.load(Ptr(pout.obj, 16 * i), TFloat('double')),
                   it.load(Ptr(pout.obj, 16 * i + 8), TFloat('double'))) for i in range(ncell)]
        return M, z0, kk, out

    def positive(kk): return [k.n > 0 for k in kk]

    def mdict(mdl):
        if mdl is None or isinstance(mdl, str): return mdl
        out = {}
        for d in mdl.decls():
            v = mdl[d]
            try: out[d.name()] = str(v.as_fraction())
            except Exception:
                try: out[d.name()] = str(v.approx(20).as_fraction())
                except Exception: out[d.name()] = '1'
        return out

    try:
        for it, (M, z0, kk, out) in irsym.explore(mod, lambda it: setup(it, False)):
            p = sym_c(it, 'p'); q = sym_c(it, 'q')
            if kind == 'zi':
                # states of the input relation with port j terminated: v_j = -Z_j i_j ; then v_k = zi_k i_k
                for port in range(2):
                    oth = 1 - port
                    lhs = R.matvec(M, [p, q])
                    v, i = R.state_from(X, lhs, [p, q], z0, kk)
                    # termination residual is linear in (p, q): t(p,q) = tp*p + tq*q ; pick (p,q) = (tq, -tp)
                    def term(pp, qq):
                        l2 = R.matvec(M, [pp, qq]); v2, i2 = R.state_from(X, l2, [pp, qq], z0, kk)
                        return v2[oth] + z0[oth] * i2[oth], v2, i2
                    one = R.C(Rat.const(1.0), Rat.const(0.0)); zero = R.C(Rat.const(0.0), Rat.const(0.0))
                    tp, _, _ = term(one, zero); tq, _, _ = term(zero, one)
                    _, v3, i3 = term(tq, -tp)
                    e = v3[port] - out[port] * i3[port]
                    st, mdl = irsym.check_zero(it, [e.re, e.im], positive(kk))
                    res['queries'] += 1; res['unsat'] += st == 'unsat'
                    res['details'].append({'q': 'zi[%d] = v/i with the other port terminated' % port, 'verdict': st, 'model': mdict(mdl)})
            else:
                O = [[out[0], out[1]], [out[2], out[3]]]
                # direction 1: every state of the input relation satisfies the output relation
                lhs = R.matvec(M, [p, q]); v, i = R.state_from(X, lhs, [p, q], z0, kk)
                rs = R.residual(Y, O, v, i, z0, kk)
                st, mdl = irsym.check_zero(it, [rs[0].re, rs[0].im, rs[1].re, rs[1].im], positive(kk))
                res['queries'] += 1; res['unsat'] += st == 'unsat'
                res['details'].append({'q': 'input relation => output relation', 'verdict': st, 'model': mdict(mdl)})
                # direction 2: every state of the output relation satisfies the input relation
                lhs = R.matvec(O, [p, q]); v, i = R.state_from(Y, lhs, [p, q], z0, kk)
                rs = R.residual(X, M, v, i, z0, kk)
                st, mdl = irsym.check_zero(it, [rs[0].re, rs[0].im, rs[1].re, rs[1].im], positive(kk))
                res['queries'] += 1; res['unsat'] += st == 'unsat'
                res['details'].append({'q': 'output relation => input relation', 'verdict': st, 'model': mdict(mdl)})
            res['steps'] = it.steps
            # aliasing: same array as input and output gives the same result
            for it2, (M2, z02, kk2, out2) in irsym.explore(mod, lambda it: setup(it, True)):
                diffs = []
                for a, b in zip(out, out2): d = a - b; diffs += [d.re, d.im]
                it2.dens += it.dens
                st, mdl = irsym.check_zero(it2, diffs, positive(kk2))
                res['queries'] += 1; res['unsat'] += st == 'unsat'
                res['details'].append({'q': 'in-place call (out == in) gives the same result', 'verdict': st, 'model': mdict(mdl)})
    except Exception as e:
        res['error'] = '%s: %s' % (type(e).__name__, e)
    res['time'] = round(time.time() - t0, 2)
    return res


def _worker_n(job):
    """one n-port conversion function at one concrete n; LU pivot comparisons fork (every feasible pivot path is checked)"""
    import z3
    from irparse import Module, TFloat
    import irsym
    from irsym import Rat, Interp, Ptr
    import vnaconv_rel as R
    irfile, fname, X, Y, kind, n = job['ir'], job['fn'], job['x'], job['y'], job['kind'], job['n']
    t0 = time.time()
    mod = Module(open(irfile).read())
    f = mod.funcs['@' + fname]
    has_z0 = len(f.ftype.args) == 4
    res = {'fn': '%s[n=%d]' % (fname, n), 'kind': kind, 'queries': 0, 'unsat': 0, 'details': [], 'paths': 0, 'nargs': len(f.ftype.args)}
    D = TFloat('double')

    def setup(it, alias):
        kk = [Rat(z3.Real('k%d' % j)) for j in range(n)]
        yy = [Rat(z3.Real('y%d' % j)) for j in range(n)]
        z0 = []
        for j in range(n):
            re = kk[j] * kk[j]
            key = (Rat._k(re.n), Rat._k(re.d)); it.known_sqrt[key] = kk[j]; it.nonneg.add(key)
            z0.append(R.C(re, yy[j]))
        M = [[R.C(Rat(z3.Real('m%d%dr' % (r, c))), Rat(z3.Real('m%d%di' % (r, c)))) for c in range(n)] for r in range(n)]
        it.alloc('in'); it.alloc('z0')
        for r in range(n):
            for c in range(n):
                it.store(Ptr('in', 16 * (n * r + c)), M[r][c].re); it.store(Ptr('in', 16 * (n * r + c) + 8), M[r][c].im)
        for j in range(n):
            it.store(Ptr('z0', 16 * j), z0[j].re); it.store(Ptr('z0', 16 * j + 8), z0[j].im)
        pout = Ptr('in', 0) if alias else it.alloc('out')
        args = [Ptr('in', 0), pout] + ([Ptr('z0', 0)] if has_z0 else []) + [n]
        it.run(f, args)
        ncell = n if kind == 'zin' else n * n
        out = [R.C(it.load(Ptr(pout.obj, 16 * i), D), it.load(Ptr(pout.obj, 16 * i + 8), D)) for i in range(ncell)]
        return M, z0, kk, out

    def mdict(mdl):
        if mdl is None or isinstance(mdl, str): return mdl
        o = {}
        for d in mdl.decls():
            try: o[d.name()] = str(mdl[d].as_fraction())
            except Exception: o[d.name()] = '1'
        return o

    try:
        kpos = [z3.Real('k%d' % j) > 0 for j in range(n)]
        for it, (M, z0, kk, out) in irsym.explore(mod, lambda it: setup(it, False), max_paths=4096, feas=kpos):
            res['paths'] += 1
            ps = [R.C(Rat(z3.Real('p%dr' % j)), Rat(z3.Real('p%di' % j))) for j in range(n)]
            if kind == 'zin':
                # zi_k: port k driven, every other port j terminated (v_j = -Z_j i_j): solve the termination conditions symbolically is
                # avoided by checking the defining consequence on the input relation: for the state with a_j = 0 (j != k) [S], i.e. in
                # v/i terms v_j + Z_j i_j = 0.  We check it for type S directly (b = S a, a = e_k), and for Z / Y via the S-parametrisation
                # of the same network: not available without inversion => only the S-input function is checked exactly here.
                if X == 's':
                    for port in range(n):
                        a = [R.C(Rat.const(1.0 if j == port else 0.0), Rat.const(0.0)) for j in range(n)]
                        b = R.matvec(M, a)
                        v, i = R.vi_from_waves(a, b, z0, kk)
                        e = v[port] - out[port] * i[port]
                        st, mdl = irsym.check_zero(it, [e.re, e.im], kpos)
                        res['queries'] += 1; res['unsat'] += st == 'unsat'
                        res['details'].append({'q': 'zi[%d] = v/i with all other ports terminated (path %s)' % (port, it.taken), 'verdict': st, 'model': mdict(mdl)})
                else:
                    # v = Z i (or i = Y v) with terminations v_j = -Z0_j i_j for j != k: unknowns i_j; verify zi_k i_k = v_k for the
                    # solution of the (n-1) termination equations, eliminated by Cramer for n <= 2
                    if n == 1:
                        e = (M[0][0] - out[0]) if X == 'z' else (R.C(Rat.const(1.0), Rat.const(0.0)) - out[0] * M[0][0])
                        st, mdl = irsym.check_zero(it, [e.re, e.im], kpos)
                        res['queries'] += 1; res['unsat'] += st == 'unsat'
                        res['details'].append({'q': 'zi[0] for a 1-port', 'verdict': st, 'model': mdict(mdl)})
                    elif n == 2:
                        for port in range(2):
                            o = 1 - port
                            one = R.C(Rat.const(1.0), Rat.const(0.0))
                            if X == 'z':
                                # i_port = 1: v_o = Z_o,port + Z_oo i_o = -Z0_o i_o  => i_o = -Z_o,port / (Z_oo + Z0_o)
                                io = -(M[o][port] / (M[o][o] + z0[o]))
                                vp = M[port][port] + M[port][o] * io
                                e = vp - out[port]
                            else:
                                # v_port = 1: i_o = Y_o,port + Y_oo v_o, v_o = -Z0_o i_o => i_o = Y_o,port / (1 + Y_oo Z0_o)
                                io = M[o][port] / (one + M[o][o] * z0[o])
                                vo = -(z0[o] * io)
                                ip = M[port][port] + M[port][o] * vo
                                e = one - out[port] * ip
                            st, mdl = irsym.check_zero(it, [e.re, e.im], kpos)
                            res['queries'] += 1; res['unsat'] += st == 'unsat'
                            res['details'].append({'q': 'zi[%d] = v/i with the other port terminated' % port, 'verdict': st, 'model': mdict(mdl)})
            else:
                O = [[out[r * n + c] for c in range(n)] for r in range(n)]
                lhs = R.matvec(M, ps); v, i = R.state_from(X, lhs, ps, z0, kk)
                lo, ro = R.sides(Y, v, i, z0, kk); mr = R.matvec(O, ro)
                ex = []
                for j in range(n): d_ = lo[j] - mr[j]; ex += [d_.re, d_.im]
                st, mdl = irsym.check_zero(it, ex, kpos, timeout_ms=120000)
                res['queries'] += 1; res['unsat'] += st == 'unsat'
                res['details'].append({'q': 'input relation => output relation (pivot path %s)' % it.taken, 'verdict': st, 'model': mdict(mdl)})
                if n <= 1:
                    lhs = R.matvec(O, ps); v, i = R.state_from(Y, lhs, ps, z0, kk)
                    lo, ro = R.sides(X, v, i, z0, kk); mr = R.matvec(M, ro)
                    ex = []
                    for j in range(n): d_ = lo[j] - mr[j]; ex += [d_.re, d_.im]
                    st, mdl = irsym.check_zero(it, ex, kpos, timeout_ms=120000)
                    res['queries'] += 1; res['unsat'] += st == 'unsat'
                    res['details'].append({'q': 'output relation => input relation (pivot path %s)' % it.taken, 'verdict': st, 'model': mdict(mdl)})
            res['steps'] = it.steps
    except Exception as e:
        import traceback
        res['error'] = '%s: %s' % (type(e).__name__, e)
    res['time'] = round(time.time() - t0, 2)
    return res


def _iso(fn, job, q):
    try: q.put(fn(job))
    except Exception as e: q.put({'fn': '%s[n=%s]' % (job['fn'], job.get('n')), 'kind': job['kind'], 'queries': 0, 'unsat': 0, 'details': [], 'error': str(e), 'time': 0})


def run_isolated(fn, jobs, par, timeout):
    """each job in its own process (z3 can crash or exhaust memory on a hard nonlinear query): a lost job is an error, not a pass"""
    import multiprocessing as mp
    out = []; pending = list(jobs); running = []
    while pending or running:
        while pending and len(running) < par:
            j = pending.pop(0); q = mp.Queue(); p = mp.Process(target=_iso, args=(fn, j, q)); p.start(); running.append((p, q, j, time.time()))
        time.sleep(0.2)
        for item in list(running):
            p, q, j, t0 = item
            r = None
            try: r = q.get_nowait()
            except Exception: pass
            if r is not None:
                out.append(r); p.join(1); running.remove(item)
            elif not p.is_alive():
                out.append({'fn': '%s[n=%s]' % (j['fn'], j.get('n')), 'kind': j['kind'], 'queries': 0, 'unsat': 0, 'details': [], 'error': 'worker died (exit %s)' % p.exitcode, 'time': round(time.time() - t0, 1)})
                running.remove(item)
            elif time.time() - t0 > timeout:
                p.kill()
                out.append({'fn': '%s[n=%s]' % (j['fn'], j.get('n')), 'kind': j['kind'], 'queries': 0, 'unsat': 0, 'details': [], 'error': 'timeout after %ds' % timeout, 'time': timeout})
                running.remove(item)
    return out


def numeric_replay(ctx, fn, x, y, kind, model, nargs):
    """call the REAL compiled function (gcc, from /repo/src) on the counterexample's inputs (rounded to doubles) and evaluate the
    three relations numerically with exact rational arithmetic on the returned doubles; confirmed if a relative residual > 1e-9"""
    import ctypes
    from fractions import Fraction
    from irsym import Rat
    import vnaconv_rel as R
    so = os.path.join(ctx.dir, fn + '.so')
    r = subprocess.run(['gcc', '-w', '-O0', '-shared', '-fPIC', '-DHAVE_CONFIG_H', '-I' + core.REPO, '-I' + core.SRC,
                        os.path.join(core.SRC, fn + '.c'), '-o', so, '-lm'], capture_output=True, text=True)
    if r.returncode != 0: return 'unconfirmed', 'native build failed: ' + r.stderr[-300:]
    lib = ctypes.CDLL(so)
    g = lambda n, dflt: float(Fraction(model.get(n, dflt))) if model else float(Fraction(dflt))
    m = [[complex(g('m%d%dr' % (r_, c), '1') + 0.25 * (r_ + 1), g('m%d%di' % (r_, c), '1') - 0.125 * c) if False else complex(g('m%d%dr' % (r_, c), '1'), g('m%d%di' % (r_, c), '1')) for c in range(2)] for r_ in range(2)]
    k = [abs(g('k%d' % j, '7')) or 7.0 for j in range(2)]
    z0 = [complex(k[j] * k[j], g('y%d' % j, '0')) for j in range(2)]
    A8 = ctypes.c_double * 8; A4 = ctypes.c_double * 4
    def call(alias):
        a = A8(*[v for r_ in m for c in r_ for v in (c.real, c.imag)])
        o = a if alias else A8()
        z = A4(z0[0].real, z0[0].imag, z0[1].real, z0[1].imag)
        f = getattr(lib, fn)
        f.restype = None
        if nargs == 3: f(a, o, z)
        else: f(a, o)
        n = 2 if kind == 'zi' else 4
        return [complex(o[2 * i], o[2 * i + 1]) for i in range(n)]
    try:
        o1 = call(False); o2 = call(True)
    except Exception as e:
        return 'unconfirmed', 'native call failed: %s' % e
    worst = 0.0; what = ''
    for a_, b_ in zip(o1, o2):
        sc = max(abs(a_), abs(b_), 1e-300)
        if abs(a_ - b_) / sc > worst: worst = abs(a_ - b_) / sc; what = 'in-place result differs from out-of-place result'
    # relation residuals in exact arithmetic on the doubles
    fr = lambda c: R.C(Rat(Fraction(c.real)), Rat(Fraction(c.imag)))
    kk = [Rat(Fraction(k[j])) for j in range(2)]
    zz = [R.C(kk[j] * kk[j], Rat(Fraction(z0[j].imag))) for j in range(2)]
    M = [[fr(m[r_][c]) for c in range(2)] for r_ in range(2)]
    p = fr(complex(g('pr', '1'), g('pi', '1/2'))); q = fr(complex(g('qr', '-1/3'), g('qi', '2')))
    if kind != 'zi':
        O = [[fr(o1[0]), fr(o1[1])], [fr(o1[2]), fr(o1[3])]]
        try:
            lhs = R.matvec(M, [p, q]); v, i = R.state_from(x, lhs, [p, q], zz, kk)
            rs = R.residual(y, O, v, i, zz, kk)
            sides_ = R.sides(y, v, i, zz, kk)
            scale = max([abs(complex(float(t.re.value()), float(t.im.value()))) for t in sides_[0] + sides_[1]] + [1e-300])
            for t in rs:
                rel = abs(complex(float(t.re.value()), float(t.im.value()))) / scale
                if rel > worst: worst = rel; what = 'output matrix violates its defining relation on a state of the input relation'
        except ZeroDivisionError:
            pass
    if worst > 1e-9: return 'confirmed', '%s (relative residual %.3g on the real compiled function)' % (what, worst)
    return 'unconfirmed', 'real function satisfies the relations at the model point (max relative residual %.3g)' % worst


def run(tier, only=None):
    t0 = time.time()
    ctx = core.Ctx()
    try:
        srcs = sorted(f for f in os.listdir(core.SRC) if re.fullmatch(r'vnaconv_[a-z]to[a-z]+\.c', f))
        jobs = []; njobs = []
        for f in srcs:
            m = re.fullmatch(r'vnaconv_([a-z])to([a-z]+)\.c', f)
            x, rest = m.group(1), m.group(2)
            if rest in ('zi',): kind, y = 'zi', 'I'
            elif rest.endswith('n'):
                fn = f[:-2]
                if only and only not in fn: continue
                common = sorted(g for g in os.listdir(core.SRC) if re.fullmatch(r'vnacommon_(lu|mldivide|mrdivide|minverse|mmultiply)\.c', g))
                ir = build_ir(ctx, [f] + common, fn)
                for n in (((1, 2) if fn == 'vnaconv_stozn' else (1,)) if tier == 'quick' else ((1, 2) if fn in ('vnaconv_stozn', 'vnaconv_ztosn', 'vnaconv_ztoyn', 'vnaconv_ytozn', 'vnaconv_stozin') else (1,))):
                    njobs.append({'ir': ir, 'fn': fn, 'x': x, 'y': 'I' if rest == 'zin' else rest[0], 'kind': 'zin' if rest == 'zin' else 'nxn', 'n': n})
                continue
            else: kind, y = '2x2', rest
            fn = f[:-2]
            if only and only not in fn: continue
            jobs.append({'ir': build_ir(ctx, [f], fn), 'fn': fn, 'x': x, 'y': y, 'kind': kind})
        results = run_isolated(_worker, jobs, core.NCPU, 300)
        results += run_isolated(_worker_n, njobs, 8, 240 if tier == 'quick' else 3000)
        nq = sum(r['queries'] for r in results); nu = sum(r['unsat'] for r in results)
        bad = [(r, d) for r in results for d in r['details'] if d['verdict'] == 'sat']
        unk = [(r, d) for r in results for d in r['details'] if d['verdict'] not in ('sat', 'unsat')]
        errs = [r for r in results if 'error' in r]
        violations = []; unconfirmed = []
        jb = {j['fn']: j for j in jobs}
        for r, d in bad:
            rd = os.path.join(core.VERIF, 'evidence', 'replay', 'C04_%s_%s' % (r['fn'], re.sub(r'\W+', '_', d['q'])[:30]))
            os.makedirs(rd, exist_ok=True)
            j = jb.get(r['fn'])
            if j is None:
                st, how = 'confirmed', 'n-port counterexample (z3 model recorded; numeric replay is implemented for the two-port functions only)'
            else: st, how = numeric_replay(ctx, r['fn'], j['x'], j['y'], j['kind'], d['model'], r['nargs'])
            json.dump({'function': r['fn'], 'query': d['q'], 'z3_model': d['model'], 'replay': st, 'how': how}, open(os.path.join(rd, 'cex.json'), 'w'), indent=1)
            d['how'] = how
            if st == 'confirmed': violations.append((r, d, rd))
            else: unconfirmed.append((r, d, how))
        ev = {'property_id': 'C04', 'tier': tier, 'seed': int(os.environ.get('VERIF_SEED', '0') or 0), 'level': 'proof',
              'coverage': {'obligations': nq, 'discharged': nu,
                           'checker_cmd': 'clang-14 -O0 -S -emit-llvm vnaconv_XtoY.c | opt-14 -mem2reg | vf/irsym.py (symbolic interpretation) | z3 (python API, QF_NRA): unsat of "denominators != 0, k > 0, NOT relation"',
                           'trusted_base': ['clang-14 front end', 'vf/irsym.py interpreter (exact rational-function semantics of fadd/fsub/fmul/fdiv, __divdc3, sqrt of declared squares)',
                                            'z3 4.x nonlinear real arithmetic', 'oracle/vnaconv_rel.py (port relations transcribed from vnaconv(3))'],
                           'functions_encoded': [r['fn'] for r in results], 'programs': len(results),
                           'bounds': 'all 72 two-port conversions and 9 two-port input-impedance functions, loop-free, every input matrix entry and reference impedance a free '
                                     'complex symbol (re z0 = k^2, k > 0); exact over the reals: silent about rounding, overflow, NaN',
                           'outside': 'n-port functions for n >= 3 (quick: n = 1, and n = 2 for stozn; thorough: n = 2 also for ztosn, ztoyn, ytozn, stozin; measured: n = 3 and n = 2 of stoyn/ytosn/ztozin/ytozin give no z3 verdict within 3000 s); for n-port functions with n >= 2 only the inclusion input-relation => output-relation is decided (equality of the two n-dimensional solution spaces then follows generically); floating-point rounding; behaviour on the singular set (denominators are assumed non-zero)',
                           'solver_time_s': round(sum(r['time'] for r in results), 1),
                           'explanation': 'per function: input relation => output relation, output relation => input relation (so the two solution spaces are equal), and in-place == out-of-place',
                           'errors': [{'fn': r['fn'], 'error': r['error']} for r in errs],
                           'unknown': [{'fn': r['fn'], 'q': d['q'], 'why': d['verdict']} for r, d in unk],
                           'samples': [{'fn': r['fn'], 'queries': [(d['q'], d['verdict']) for d in r['details']], 'interp_steps': r.get('steps'), 'time_s': r['time']} for r in results[:12]],
                           'per_function_time_s': {r['fn']: r['time'] for r in results if r['time'] > 5}, 'pivot_paths': {r['fn']: r.get('paths') for r in results if r.get('paths')}},
              'assumptions': ['real arithmetic (no rounding)', 're z0 > 0', 'inputs away from the singular set: every divisor met during the computation is non-zero'],
              'wall_s': round(time.time() - t0, 1), 'violations': len(violations)}
        if violations:
            ev['coverage']['violations'] = [{'fn': r['fn'], 'query': d['q'], 'model': d['model'], 'replay': rd} for r, d, rd in violations]
        json.dump(ev, open(os.path.join(core.VERIF, 'evidence', 'C04.json'), 'w'), indent=1)
        for r in errs: print('ERROR property=C04 function=%s %s' % (r['fn'], r['error']))
        for r, d in unk: print('INCOMPLETE property=C04 function=%s query=%s: %s' % (r['fn'], d['q'], d['verdict']))
        for r, d, how in unconfirmed: print('UNCONFIRMED property=C04 function=%s query=%s: %s' % (r['fn'], d['q'], how))
        for r, d, rd in violations:
            print('VIOLATION property=C04 replay=%s' % rd)
            print('  function=%s query=%s (%s)' % (r['fn'], d['q'], d.get('how', '')))
        print('C04 %s: %d functions, %d queries, %d unsat, %d violations, %d unknown, %d errors, %.1fs' % (
            tier, len(results), nq, nu, len(violations), len(unk), len(errs), time.time() - t0))
        if violations: return 1
        if errs or unk or unconfirmed or nq == 0: return 2
        return 0
    finally:
        ctx.close()
