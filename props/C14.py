"""C14 (document level): property trees survive YAML export and import unchanged - see props/yamlflow.py.
The part of C14 that lives in libyaml (emitter text, parser, quoting / resolution of plain scalars) is outside: libyaml is a binary
without source here and is modelled as the identity on documents (node kinds, order, scalar bytes and scalar style)."""
import os, re, json, time
from vf import core


def native_program(tree):
    from props import yamlflow
    L = ['#include <stdio.h>', '#include <stdlib.h>', '#include <string.h>', '#include <errno.h>', '#include <vnaproperty.h>',
         'static int same(const vnaproperty_t *a, const vnaproperty_t *b) {',
         '  int ta = vnaproperty_type(a, "."), tb = vnaproperty_type(b, "."); if (ta != tb) return 0;',
         '  if (ta == \'s\') return strcmp(vnaproperty_get(a, "."), vnaproperty_get(b, ".")) == 0;',
         '  if (ta == \'l\') { int n = vnaproperty_count(a, "."); if (n != vnaproperty_count(b, ".")) return 0; for (int i = 0; i < n; ++i) if (!same(vnaproperty_get_subtree(a, "[%d]", i), vnaproperty_get_subtree(b, "[%d]", i))) return 0; return 1; }',
         '  if (ta == \'m\') { const char **ka = vnaproperty_keys(a, "."), **kb = vnaproperty_keys(b, "."); int ok = 1; int i = 0;',
         '    for (; ok && ka[i] != NULL; ++i) { if (kb[i] == NULL || strcmp(ka[i], kb[i]) != 0) { ok = 0; break; } char *q = vnaproperty_quote_key(ka[i]); ok = same(vnaproperty_get_subtree(a, "%s", q), vnaproperty_get_subtree(b, "%s", q)); free(q); }',
         '    if (ok && kb[i] != NULL) ok = 0; free(ka); free(kb); return ok; }',
         '  return 1; }',
         'int main(void) { vnaproperty_t *r = NULL, *r2 = NULL; int bad = 0;']
    for ex_ in yamlflow.C14_TREES[tree]:
        L.append('  if (vnaproperty_set(&r, "%%s", "%s") != 0) { fprintf(stderr, "set failed\\n"); return 2; }' % ex_.decode('utf-8').replace('\\', '\\\\').replace('"', '\\"'))
    L += ['  FILE *fp = fopen("vf_p.yaml", "w"); if (vnaproperty_export_yaml_to_file(r, fp, "vf_p.yaml", NULL, NULL) != 0) { fprintf(stderr, "VF-ASSERT-FAIL: export failed\\n"); return 1; } fclose(fp);',
          '  fp = fopen("vf_p.yaml", "r"); if (vnaproperty_import_yaml_from_file(&r2, fp, "vf_p.yaml", NULL, NULL) != 0) { fprintf(stderr, "VF-ASSERT-FAIL: import failed (errno %d)\\n", errno); return 1; } fclose(fp);',
          '  if (!same(r, r2)) { fprintf(stderr, "VF-ASSERT-FAIL: the imported tree differs from the exported one\\n"); bad = 1; }',
          '  remove("vf_p.yaml"); vnaproperty_delete(&r, "."); vnaproperty_delete(&r2, "."); return bad; }']
    return '\n'.join(L) + '\n'


def run(tier, only=None):
    from props import calrun, yamlflow
    t0 = time.time()
    ctx = core.Ctx()
    try:
        ml = calrun.build_whole_ir(ctx); calrun.load_module(ml)
        jobs = [{'id': t, 'tree': t, 'kind': 'C14'} for t in yamlflow.C14_TREES if not only or only in t]
        results = calrun.run_jobs(yamlflow.worker, jobs, par=max(1, core.NCPU - 1), timeout=600, mem_gb=8)
        native = calrun.Native(ctx); viol = []
        for r, j in zip(results, jobs):
            if r.get('error'): continue
            whats = []
            if r.get('fault'): whats.append('memory fault / abort in the symbolic run of the real code: ' + r['fault'])
            for x in r.get('sat', []): whats.append('%s %s' % (x.get('q'), json.dumps(x.get('detail'), default=str)[:400]))
            if not whats: continue
            rd = os.path.join(core.VERIF, 'evidence', 'replay', 'C14_' + re.sub(r'\W+', '_', r['id']))
            ok, how, outp = native.run_c(native_program(j['tree']), rd)
            json.dump({'property': 'C14', 'job': j, 'what': whats[:10], 'native': how}, open(os.path.join(rd, 'cex.json'), 'w'), indent=1, default=str)
            viol.append({'id': r['id'], 'what': ' ;; '.join(whats[:6]), 'replay': rd, 'confirmed': ok, 'how': how})
        meta = {'checker_cmd': 'clang-14 -O0 -emit-llvm (whole library) | llvm-link | opt -mem2reg | vf/irx.py + vf/yamlmodel.py (document-API model of libyaml); the comparison of the observable trees is decided by execution over concrete strings (no symbolic data in this property)',
                'trusted_base': ['clang-14 front end', 'vf/irx.py', 'vf/yamlmodel.py (libyaml emitter + parser = identity on documents incl. scalar style)', 'clang ASan native build for replay'],
                'functions': ['vnaproperty_export_yaml_to_file', 'vnaproperty_import_yaml_from_file', 'vnaproperty_import_yaml_from_string', '_vnaproperty_yaml_export', '_vnaproperty_yaml_import', 'vnaproperty_set / get / keys / count / type / quote_key / get_subtree / delete'],
                'bounds': '%d trees built through the public API: flat map, nested maps / lists, lists with nulls (also trailing), scalars that look like YAML syntax / numbers / booleans / null, keys that need quoting, root scalar, root list, UTF-8 text; '
                          'export to file, import from file and from string; observable equality (type, count, keys in order, get, get_subtree) node by node; leak check including libyaml objects' % len(jobs),
                'outside': 'everything inside libyaml: the emitted text, quoting, plain-scalar resolution, line folding, anchors - modelled as the identity on documents; arbitrary (symbolic) scalar bytes; properties embedded in calibration files (C07.b covers their document round trip)',
                'explanation': yamlflow.__doc__, 'level': 'exploration', 'evidence': False,
                'assumptions': ['libyaml emitter-then-parser is the identity on documents (kinds, order, scalar bytes, scalar style)'],
                'samples': [{'id': r.get('id'), 'queries': r.get('queries'), 'file_bytes': r.get('file_bytes'), 'time_s': r.get('time')} for r in results[:20]]}
        rc, ev = calrun.report('C14', tier, results, viol, meta, t0)
        return rc
    finally:
        ctx.close()
