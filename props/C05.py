import os
from vf.core import Ob, SRC

META = dict(
    level='proof',
    bounds='all 11 x 13 (from, to) type pairs (to includes the invalid codes -1 and 11), shapes 2x2 / 1x2 (ZIN) (+ 3x3 and 1x1 for S,Z,Y; thorough adds '
           '1x3 ZIN and F = 0, 1), ordinary and per-frequency z0, in-place and out-of-place; every cell / frequency / impedance value symbolic',
    outside='numeric content of the kernels (C04); N > 3; conversion chains A->B->C (transitivity of C04); resize/convert histories beyond one conversion '
            '(the ZIN post-state invariant is checked instead)',
    assumptions=['allocation never fails', 'vasprintf stub', 'every vnaconv_* kernel replaced by a recording stub generated from vnaconv.h'],
    explanation='bounded symbolic check of the real vnadata_convert dispatch against a name-derived oracle',
)
L = '-stuzyhgabI'


def obligations(tier):
    excl = sorted(f for f in os.listdir(SRC) if f.startswith('vnaconv_') and f.endswith('.c'))
    os.system('python3 %s >/dev/null' % os.path.join(os.path.dirname(os.path.dirname(os.path.abspath(__file__))), 'tools', 'gen_c05_stubs.py'))
    obs = []
    def shapes(frm):
        if frm == 0: return [(2, 2)] if tier == 'quick' else [(2, 2), (2, 3), (0, 0)]
        if frm in (1, 4, 5): return [(2, 2), (3, 3)] if tier == 'quick' else [(1, 1), (2, 2), (3, 3)]
        if frm == 10: return [(1, 2)] if tier == 'quick' else [(1, 1), (1, 2), (1, 3)]
        return [(2, 2)]
    for frm in range(11):
        for to in range(-1, 12):
            for (r, c) in shapes(frm):
                for F in ((2,) if tier == 'quick' else (0, 1, 2)):
                    for (fz, ip) in (((0, 0), (1, 1)) if tier == 'quick' else ((0, 0), (0, 1), (1, 0), (1, 1))):
                        if fz and (F == 0 or max(r, c) == 0): continue
                        nm = '%s%dx%d-to-%s-F%d%s%s' % (L[frm], r, c, L[to] if 0 <= to < 11 else ('m1' if to < 0 else '11'), F, '-fz' if fz else '', '-inplace' if ip else '')
                        obs.append(Ob('C05/' + nm, 'C05_convert.c', engine='L',
                                      defs={'FROM': frm, 'TO': to, 'ROWS': r, 'COLS': c, 'FREQ': F, 'FZ': fz, 'INPLACE': ip},
                                      unwind=12, ovr=['vasprintf'], leak=True, exclude=excl, timeout=600,
                                      optional_witnesses=['refused', 'accepted'],
                                      functions=['vnadata_convert', 'get_fz0_vector', 'vnadata_init', 'vnadata_set_z0_vector', 'vnadata_set_fz0_vector'],
                                      bounds=nm, stubs=['vasprintf', '90 recording vnaconv_* stubs'],
                                      what='convert %s' % nm))
    return obs
