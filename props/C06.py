"""C06: network data survive save and load in Touchstone 1, Touchstone 2 and NPD.
Engine: the real vnadata_cksave / vnadata_save / vnadata_load (and the vnadata_convert they call) executed by the whole-flow symbolic
interpreter vf/irx.py over an in-memory file system.  Every matrix cell (and, where stated, every reference impedance) is a free
complex symbol; a symbolic double that reaches printf is written as a unique numeric placeholder and mapped back to its symbol when
strtod reads it, so the bytes between saver and loader are the real ones (syntax, ordering, normalisation, units) while the digits of
symbolic values are abstracted (exact transfer; the number of significant digits is outside the claim).

Per job (parameter type x ports x file type x format x impedance mode x precision), z3 decides for all values:
   agree      vnadata_cksave accepts  <=>  vnadata_save succeeds (same return value; a refused save leaves no file and sets EINVAL)
   written    the file, read by the independent reader oracle/netfile_reader.py (written from the format documents), denotes the object's
              type, ports, frequencies, impedances and - cell by cell - its data in the requested parameter form (Touchstone 1 Z/Y/H/G:
              after undoing the documented normalisation by the reference resistance)
   loaded     vnadata_load of that file gives the type of the first requested parameter, the same dimensions, frequencies and impedances,
              and cell by cell the same data
The "requested parameter form" of a converted format (e.g. an S object saved as Zri) is the real vnadata_convert of the object
(its dispatch is C05's subject, the kernels C04's).
"""
import os, re, json, time
from fractions import Fraction
from vf import core

TYPES = {'S': 1, 'T': 2, 'U': 3, 'Z': 4, 'Y': 5, 'H': 6, 'G': 7, 'A': 8, 'B': 9, 'ZIN': 10}
TNAME = {v: k for k, v in TYPES.items()}
FREQS = [Fraction(10 ** 9), Fraction(5 * 10 ** 9, 2)]
MAXP = 1000


def jobs_for(tier):
    J = []
    def add(typ, ports, fname, fmt=None, z0='default', prec='default', expect=None, cells='sym'):
        J.append({'id': '%s%d-%s%s-%s-%s%s' % (typ, ports, fname.split('.')[-1], '' if fmt is None else '-' + fmt.replace(',', '+'), z0, prec, '' if cells == 'sym' else '-' + cells),
                  'type': typ, 'ports': ports, 'file': 'data.' + fname if '.' not in fname else fname, 'format': fmt, 'z0': z0, 'prec': prec, 'expect': expect, 'cells': cells})
    pmax = 3 if tier == 'quick' else 4
    # Touchstone 1 stores Z / Y / H / G normalised to 1 ohm, which the saver does through S and back (two n-port conversions with LU pivoting): with symbolic
    # cells that is within reach for 1 port only; for 2+ ports the symbolic jobs use z0 = 1 (no normalisation step) and the normalisation runs on constant cells
    for typ in ('S', 'Z', 'Y'):
        for n in range(1, pmax + 1):
            heavy = typ != 'S' and n >= 2
            add(typ, n, 'd.ts'); add(typ, n, 'd.npd')
            add(typ, n, 'd.ts', z0='perport'); add(typ, n, 'd.npd', z0='complex'); add(typ, n, 'd.npd', z0='fz0')
            if not heavy: add(typ, n, 'd.s%dp' % n); add(typ, n, 'd.s%dp' % n, z0='real')
            else: add(typ, n, 'd.s%dp' % n, z0='one'); add(typ, n, 'd.s%dp' % n, cells='const')
        add(typ, 2, 'd.s2p', prec='max', z0='default' if typ == 'S' else 'one'); add(typ, 2, 'd.ts', prec='max'); add(typ, 2, 'd.npd', prec='max')
    for typ in ('H', 'G'):
        add(typ, 2, 'd.s2p', z0='one'); add(typ, 2, 'd.s2p', cells='const'); add(typ, 2, 'd.ts'); add(typ, 2, 'd.npd'); add(typ, 2, 'd.ts', z0='perport')
    for typ in ('T', 'U', 'A', 'B'):
        add(typ, 2, 'd.npd'); add(typ, 2, 'd.npd', z0='complex'); add(typ, 2, 'd.npd', prec='max')
    for n in (1, 2, 3):
        add('ZIN', n, 'd.npd'); add('ZIN', n, 'd.npd', z0='fz0')
    # converted formats (the saver converts; LU pivot forks explored)
    for fname in ('d.ts', 'd.npd'):
        add('S', 2, fname, fmt='Zri'); add('S', 2, fname, fmt='Yri'); add('Z', 2, fname, fmt='Sri', cells='const'); add('Y', 2, fname, fmt='Hri', cells='const')
    for fmt_, t_ in (('Zri', 'S'), ('Sri', 'Z'), ('Yri', 'S'), ('Hri', 'Y')): add(t_, 2, 'd.s2p', fmt=fmt_, cells='const')
    add('S', 2, 'd.npd', fmt='Tri'); add('S', 2, 'd.npd', fmt='Sri,Zri'); add('T', 2, 'd.npd', fmt='Sri'); add('S', 2, 'd.npd', fmt='Zinri')
    add('S', 1, 'd.s1p', fmt='Zri'); add('S', 1, 'd.npd', fmt='Zri,Yri')
    if tier != 'quick':
        add('S', 3, 'd.s3p', fmt='Zri'); add('S', 3, 'd.npd', fmt='Yri'); add('Z', 3, 'd.ts', fmt='Sri')
    # combinations the saver must refuse: cksave and save have to agree on them too
    add('T', 2, 'd.s2p', expect='refuse'); add('A', 2, 'd.ts', expect='refuse'); add('S', 1, 'd.npd', fmt='Hri', expect='refuse')
    add('S', 2, 'd.s2p', z0='perport', expect='refuse'); add('S', 2, 'd.ts', z0='complex', expect='refuse'); add('S', 2, 'd.s2p', z0='fz0', expect='refuse')
    add('ZIN', 2, 'd.npd', fmt='Sri', expect='refuse'); add('ZIN', 2, 'd.ts', expect='refuse'); add('S', 2, 'd.ts', fmt='Tri', expect='refuse')
    add('S', 2, 'd.npd', fmt='Sxy', expect='refuse'); add('S', 3, 'd.npd', fmt='Tri', expect='refuse')
    return J


class Holder:
    pass


def run_once(mod, job, choices, holder):
    import z3, irsym
    from irx import XInterp, NULL, sgn, Special
    from irsym import Rat, Ptr
    from props.calflow import C, csym, cconst
    import netfile_reader as NR
    it = XInterp(mod); it.generic = True; it.choices = list(choices)
    h = Holder(); h.it = it; holder['flow'] = h
    res = {'queries': 0, 'unsat': 0, 'sat': [], 'unknown': [], 'notes': []}
    call = lambda n, a: it.call('@' + n, a)
    icall = lambda n, a: sgn(call(n, a) & 0xffffffff, 32)
    it.hooks['_vnadata_error'] = None
    del it.hooks['_vnadata_error']
    typ, n = job['type'], job['ports']
    rows, cols = (1, n) if typ == 'ZIN' else (n, n)
    F = len(FREQS)
    vdp = call('vnadata_alloc', [NULL, NULL])
    assert icall('vnadata_init', [vdp, TYPES[typ], rows, cols, F]) == 0
    for i, f in enumerate(FREQS): assert icall('vnadata_set_frequency', [vdp, i, Rat(f, Fraction(1))]) == 0
    cells = {}
    for fi in range(F):
        for r in range(rows):
            for c in range(cols):
                if job.get('cells', 'sym') == 'sym': v = csym('d%d_%d%d' % (fi, r, c))
                else: v = cconst(Fraction((7 * fi + 3 * r + 5 * c) % 11 - 5, 8) + (2 if r == c else 0), Fraction((5 * fi + 7 * r + 3 * c) % 13 - 6, 16))
                cells[(fi, r, c)] = v
                assert icall('vnadata_set_cell', [vdp, fi, r, c, v.re, v.im]) == 0
    # impedances
    zmode = job['z0']
    def posreal(name):
        k = Rat(z3.Real(name)); re = k * k
        key = (Rat._k(re.n), Rat._k(re.d)); it.known_sqrt[key] = k; it.nonneg.add(key)
        it.path.append(z3.Real(name) > 0)
        return re
    z0 = None; fz0 = None
    if zmode == 'default': z0 = [cconst(50)] * n
    elif zmode == 'one':
        z0 = [cconst(1)] * n
        assert icall('vnadata_set_all_z0', [vdp, Rat.const(1.0), Rat.const(0.0)]) == 0
    elif zmode == 'real':
        zr = C(posreal('kz'), Rat.const(0.0)); z0 = [zr] * n
        assert icall('vnadata_set_all_z0', [vdp, zr.re, zr.im]) == 0
    elif zmode == 'perport':
        z0 = [C(posreal('kz%d' % p), Rat.const(0.0)) for p in range(n)]
        for p in range(n): assert icall('vnadata_set_z0', [vdp, p, z0[p].re, z0[p].im]) == 0
    elif zmode == 'complex':
        z0 = [C(posreal('kz%d' % p), Rat(z3.Real('yz%d' % p))) for p in range(n)]
        for p in range(n): assert icall('vnadata_set_z0', [vdp, p, z0[p].re, z0[p].im]) == 0
    else:
        fz0 = [[C(posreal('kz%d_%d' % (fi, p)), Rat(z3.Real('yz%d_%d' % (fi, p)))) for p in range(n)] for fi in range(F)]
        for fi in range(F):
            for p in range(n): assert icall('vnadata_set_fz0', [vdp, fi, p, fz0[fi][p].re, fz0[fi][p].im]) == 0
    if job['format'] is not None:
        rcf = icall('vnadata_set_format', [vdp, it.static_str(job['format'].encode())])
        if rcf != 0 and job['expect'] != 'refuse': res['sat'].append({'q': 'vnadata_set_format(%r) is accepted' % job['format']}); return res
        if rcf != 0: res['notes'].append('format refused by vnadata_set_format'); res['queries'] += 1; res['unsat'] += 1; return res
    numeric = job.get('cells', 'sym') == 'const'
    if job['prec'] == 'max' or numeric:
        assert icall('vnadata_set_fprecision', [vdp, MAXP]) == 0 and icall('vnadata_set_dprecision', [vdp, MAXP]) == 0
    fname = job['file'].encode(); p = it.static_str(fname)

    def prove(exprs, q):
        ex = []
        for e in exprs:
            if isinstance(e, C): ex += [e.re, e.im]
            else: ex.append(e)
        if any(isinstance(e, Special) for e in ex):
            res['sat'].append({'q': q, 'detail': 'non-finite value'}); return False
        if numeric:
            # constant cells: the numbers in the file are real printf output (hex floats at maximum precision), so equality holds to
            # rounding only: evaluated numerically (roots of constants by their approximations), tolerance 1e-10 - a numeric complement,
            # counted separately from the z3 identities
            res['numeric'] = res.get('numeric', 0) + 1; res['queries'] += 1
            rv = it.__dict__.get('_root_vals', {})
            worst = 0.0
            for e in ex:
                if e.isconst(): v = float(e.value())
                else:
                    vs = it._vars_of(e.z3num() / e.z3den())
                    if not all(x.get_id() in rv for x in vs): res['unknown'].append({'q': q, 'why': 'symbolic value in a constant-cell job'}); return None
                    r_ = z3.simplify(z3.substitute(e.z3num() / e.z3den(), [(x, z3.RealVal(rv[x.get_id()])) for x in vs]))
                    v = float(r_.as_fraction()) if z3.is_rational_value(r_) else float('nan')
                worst = max(worst, abs(v)) if v == v else float('inf')
            if worst <= 1e-10: res['unsat'] += 1; return True
            res['sat'].append({'q': q, 'detail': 'numeric difference %g' % worst}); return False
        st, mdl = irsym.check_zero(it, ex, timeout_ms=60000)
        res['queries'] += 1
        if st == 'unsat': res['unsat'] += 1; return True
        if st == 'sat': res['sat'].append({'q': q, 'model': {d.name(): str(mdl[d]) for d in mdl.decls()}}); return False
        res['unknown'].append({'q': q, 'why': str(mdl)}); return None

    def check(cond, q, detail=None):
        res['queries'] += 1
        if cond: res['unsat'] += 1
        else: res['sat'].append({'q': q, 'detail': detail})
        return cond

    # ---- agree
    it.set_errno(0)
    rck = icall('vnadata_cksave', [vdp, p])
    it.set_errno(0)
    nerr0 = len(it.errors)
    rsv = icall('vnadata_save', [vdp, p])
    check(rck == rsv, 'agree: vnadata_cksave and vnadata_save return the same value', 'cksave %d, save %d' % (rck, rsv))
    if job['expect'] == 'refuse':
        check(rsv == -1, 'the undocumented combination is refused', 'save returned %d' % rsv)
        if rsv == -1:
            check(it.get_errno() == 22, 'a refused save sets EINVAL', 'errno %d' % it.get_errno())
            check(fname not in it.fs or it.fs[fname] == b'', 'a refused save writes no data', it.fs.get(fname, b'')[:80])
        return res
    if not check(rsv == 0, 'the documented combination is saved', 'save returned %d (errno %d)' % (rsv, it.get_errno())): return res
    text = it.fs[fname].decode()
    res['file_bytes'] = len(text)

    # ---- expected contents per requested parameter: the real vnadata_convert of the object (identity for its own type)
    fmt = job['format'] or (typ + 'ri')
    prms = [x.strip() for x in fmt.split(',')]
    def ptype(prm): return re.match(r'(?i)(zin|[stuzyhgab])', prm).group(1).upper()
    converted = {}
    def expected(t):
        if t not in converted:
            if t == typ: converted[t] = (vdp, rows, cols)
            else:
                vo = call('vnadata_alloc', [NULL, NULL])
                assert icall('vnadata_convert', [vdp, vo, TYPES[t]]) == 0
                converted[t] = (vo, icall('vnadata_get_rows', [vo]), icall('vnadata_get_columns', [vo]))
        return converted[t]
    def cell_of(v, fi, r, c):
        w = call('vnadata_get_cell', [v, fi, r, c]); return C(w[0], w[1])

    # ---- written: independent reader
    def num(tok):
        t = tok.strip()
        neg = t.startswith('-'); t = t.lstrip('+-')
        v = Fraction(float.fromhex(t)) if t.lower().startswith('0x') else Fraction(t)
        ph = it.placeholders.get(v)
        x = ph[0] if ph is not None else Rat(v, Fraction(1))
        return -x if neg else x
    ext = job['file'].rsplit('.', 1)[-1].lower()
    try:
        if ext == 'npd': doc = NR.read_npd(text, num)
        elif ext == 'ts': doc = NR.read_touchstone2(text, num)
        else: doc = NR.read_touchstone1(text, int(re.match(r's(\d+)p', ext).group(1)), num)
    except (NR.FormatError, KeyError, ValueError, IndexError) as e:
        res['sat'].append({'q': 'written: the file is well-formed for an independent reader', 'detail': '%s: %s' % (type(e).__name__, e), 'text': text[:600]}); return res
    check(doc['ports'] == n, 'written: port count', doc['ports'])
    check(len(doc['freqs']) == F, 'written: frequency count', len(doc['freqs']))
    prove([fv * Rat(Fraction(u), Fraction(1)) - Rat(FREQS[i], Fraction(1)) for i, (fv, u) in enumerate(doc['freqs'])], 'written: frequencies (with the unit of the option line)')
    if ext == 'npd':
        check([x.lower() for x in doc['params']] == [x.lower() for x in prms], 'written: #:parameters names the requested parameters', doc['params'])
        if fz0 is None:
            check(doc['z0'] is not None, 'written: ordinary impedances in the header')
            if doc['z0'] is not None: prove([C(a, b) - z0[i] for i, (a, b) in enumerate(doc['z0'])], 'written: #:z0')
        else:
            check(doc['fz0'] is not None, 'written: per-frequency impedances')
            if doc['fz0']: prove([C(a, b) - fz0[fi][i] for fi in range(F) for i, (a, b) in enumerate(doc['fz0'][fi])], 'written: per-frequency z0 columns')
        for fi in range(F):
            for k, prm in enumerate(prms):
                st = doc['sets'][fi][k]
                vexp, er, ec = expected(ptype(prm))
                check(st['coord'] == 'RI', 'written: coordinates', st['coord'])
                prove([C(a, b) - cell_of(vexp, fi, r, c) for (r, c), (a, b) in st['cells'].items()], 'written: %s data at frequency %d' % (prm, fi))
    else:
        t0 = ptype(prms[0])
        check(doc['type'] == t0, 'written: parameter type of the option line', doc['type'])
        check(doc['coord'] == 'RI', 'written: coordinates', doc['coord'])
        prove([doc['z0'][i] - z0[i].re for i in range(n)] + [z0[i].im for i in range(n)], 'written: reference resistance(s)')
        vexp, er, ec = expected(t0)
        R = doc['R']
        for fi in range(F):
            ex = []
            for r in range(n):
                for c in range(n):
                    a, b = doc['data'][fi][r][c]; v = C(a, b)
                    if doc['normalised']:          # Touchstone 1: Z, Y, H, G are stored normalised to the reference resistance
                        Rc = C(R, Rat.const(0.0))
                        if t0 == 'Z': v = v * Rc
                        elif t0 == 'Y': v = v / Rc
                        elif t0 == 'H': v = v * Rc if (r, c) == (0, 0) else (v / Rc if (r, c) == (1, 1) else v)
                        elif t0 == 'G': v = v / Rc if (r, c) == (0, 0) else (v * Rc if (r, c) == (1, 1) else v)
                    ex.append(v - cell_of(vexp, fi, r, c))
            prove(ex, 'written: %s data at frequency %d%s' % (t0, fi, ' (normalisation undone)' if doc['normalised'] else ''))

    # ---- loaded
    v2 = call('vnadata_alloc', [NULL, NULL])
    it.set_errno(0)
    rl = icall('vnadata_load', [v2, p])
    if not check(rl == 0, 'loaded: every file the saver writes is accepted by the loader', 'load returned %d, errno %d, %s' % (rl, it.get_errno(), it.errors[-1:])): return res
    t0 = ptype(prms[0])
    vexp, er, ec = expected(t0)
    check(icall('vnadata_get_type', [v2]) == TYPES[t0], 'loaded: parameter type', TNAME.get(icall('vnadata_get_type', [v2])))
    check((icall('vnadata_get_rows', [v2]), icall('vnadata_get_columns', [v2])) == (er, ec), 'loaded: dimensions')
    check(icall('vnadata_get_frequencies', [v2]) == F, 'loaded: frequency count')
    prove([call('vnadata_get_frequency', [v2, i]) - Rat(FREQS[i], Fraction(1)) for i in range(F)], 'loaded: frequencies')
    if fz0 is None:
        check(icall('vnadata_has_fz0', [v2]) & 1 == 0, 'loaded: ordinary impedances stay ordinary')
        zz = [call('vnadata_get_z0', [v2, i]) for i in range(n)]
        prove([C(a, b) - z0[i] for i, (a, b) in enumerate(zz)], 'loaded: reference impedances')
    else:
        check(icall('vnadata_has_fz0', [v2]) & 1 == 1, 'loaded: per-frequency impedances stay per-frequency')
        zz = [[call('vnadata_get_fz0', [v2, fi, i]) for i in range(n)] for fi in range(F)]
        prove([C(a, b) - fz0[fi][i] for fi in range(F) for i, (a, b) in enumerate(zz[fi])], 'loaded: per-frequency impedances')
    for fi in range(F):
        prove([cell_of(v2, fi, r, c) - cell_of(vexp, fi, r, c) for r in range(er) for c in range(ec)], 'loaded: %s data at frequency %d' % (t0, fi))
    # everything released
    for t, (vo, _, _) in converted.items():
        if vo is not vdp: call('vnadata_free', [vo])
    call('vnadata_free', [v2]); call('vnadata_free', [vdp])
    leaks = it.live_heap()
    check(not leaks, 'nothing stays allocated after vnadata_free', '%d objects' % len(leaks))
    res['placeholders'] = len(it.placeholders); res['placeholder_reads'] = getattr(it, 'placeholder_reads', 0)
    return res


def io_worker(mod, job):
    import irx
    from props.calflow import all_paths
    out = {'id': job['id'], 'paths': 0, 'queries': 0, 'unsat': 0, 'sat': [], 'unknown': [], 'fault': None, 'funcs': [], 'unexplored': []}
    try:
        rs = all_paths(lambda ch, h: run_once(mod, job, ch, h), max_paths=64)
    except (irx.MemFault, irx.LibAbort) as e:
        out['fault'] = '%s: %s' % (type(e).__name__, e); return out
    for r in rs:
        out['paths'] += 1; out['queries'] += r['queries']; out['unsat'] += r['unsat']; out['sat'] += r['sat']; out['unknown'] += r['unknown']
    out['file_bytes'] = rs[0].get('file_bytes') if rs else None
    out['placeholders'] = rs[0].get('placeholders') if rs else None
    return out


def native_program(job, seed=1):
    """save -> load of the same configuration with numeric values against the sanitizer build: the demonstration for a counterexample"""
    import random
    rnd = random.Random(seed)
    typ, n = job['type'], job['ports']
    rows, cols = (1, n) if typ == 'ZIN' else (n, n)
    L = ['#include <stdio.h>', '#include <stdlib.h>', '#include <math.h>', '#include <complex.h>', '#include <errno.h>', '#include <unistd.h>', '#include <vnadata.h>',
         'static void errfn(const char *m, void *a, vnaerr_category_t c) { fprintf(stderr, "libvna: %s\\n", m); }',
         'int main(void) { int bad = 0; vnadata_t *v = vnadata_alloc_and_init(errfn, NULL, VPT_%s, %d, %d, 2); vnadata_t *w = vnadata_alloc(errfn, NULL); vnadata_t *x = vnadata_alloc(errfn, NULL);' % (typ, rows, cols),
         '  vnadata_set_frequency(v, 0, 1.0e9); vnadata_set_frequency(v, 1, 2.5e9);']
    for fi in range(2):
        for r in range(rows):
            for c in range(cols):
                L.append('  vnadata_set_cell(v, %d, %d, %d, %r + %r * I);' % (fi, r, c, rnd.randint(-90, 90) / 64.0, rnd.randint(-90, 90) / 64.0))
    z = job['z0']
    if z == 'real': L.append('  vnadata_set_all_z0(v, 75.0);')
    elif z == 'one': L.append('  vnadata_set_all_z0(v, 1.0);')
    elif z == 'perport': L += ['  vnadata_set_z0(v, %d, %r);' % (p, 40.0 + 9 * p) for p in range(n)]
    elif z == 'complex': L += ['  vnadata_set_z0(v, %d, %r + %r * I);' % (p, 40.0 + 9 * p, 3.0 - 2 * p) for p in range(n)]
    elif z == 'fz0': L += ['  vnadata_set_fz0(v, %d, %d, %r + %r * I);' % (fi, p, 40.0 + 9 * p + fi, 3.0 - 2 * p + fi) for fi in range(2) for p in range(n)]
    if job['format']: L.append('  if (vnadata_set_format(v, "%s") != 0) { %s }' % (job['format'], 'printf("format refused\\n"); return 0;' if job['expect'] == 'refuse' else 'return 1;'))
    L.append('  vnadata_set_fprecision(v, VNADATA_MAX_PRECISION); vnadata_set_dprecision(v, VNADATA_MAX_PRECISION);')
    L.append('  const char *fn = "vf_%s"; unlink(fn);' % job['file'])
    L.append('  int rck = vnadata_cksave(v, fn), rsv = vnadata_save(v, fn);')
    L.append('  if (rck != rsv) { fprintf(stderr, "VF-ASSERT-FAIL: cksave returns %d, save returns %d\\n", rck, rsv); bad = 1; }')
    if job['expect'] == 'refuse':
        L.append('  if (rsv != -1) { fprintf(stderr, "VF-ASSERT-FAIL: an undocumented combination was saved\\n"); bad = 1; }')
    else:
        fmt = job['format'] or (typ + 'ri')
        t0 = re.match(r'(?i)(zin|[stuzyhgab])', fmt).group(1).upper()
        L.append('  if (rsv != 0) { fprintf(stderr, "VF-ASSERT-FAIL: save failed\\n"); return 1; }')
        L.append('  if (vnadata_load(w, fn) != 0) { fprintf(stderr, "VF-ASSERT-FAIL: the loader rejects what the saver wrote\\n"); return 1; }')
        L.append('  if (vnadata_convert(v, x, VPT_%s) != 0) return 1;' % t0)
        L.append('  if (vnadata_get_type(w) != VPT_%s || vnadata_get_rows(w) != vnadata_get_rows(x) || vnadata_get_columns(w) != vnadata_get_columns(x) || vnadata_get_frequencies(w) != 2) { fprintf(stderr, "VF-ASSERT-FAIL: type / dimensions differ\\n"); bad = 1; }' % t0)
        L.append('  else for (int f = 0; f < 2; ++f) { if (fabs(vnadata_get_frequency(w, f) - vnadata_get_frequency(v, f)) > 1e-3) { fprintf(stderr, "VF-ASSERT-FAIL: frequency %d differs\\n", f); bad = 1; }')
        L.append('    for (int p = 0; p < %d; ++p) { double complex a = vnadata_has_fz0(v) ? vnadata_get_fz0(v, f, p) : vnadata_get_z0(v, p), b = vnadata_has_fz0(w) ? vnadata_get_fz0(w, f, p) : vnadata_get_z0(w, p); if (cabs(a - b) > 1e-9 * cabs(a)) { fprintf(stderr, "VF-ASSERT-FAIL: impedance differs\\n"); bad = 1; } }' % n)
        L.append('    for (int r = 0; r < vnadata_get_rows(x); ++r) for (int c = 0; c < vnadata_get_columns(x); ++c) { double complex a = vnadata_get_cell(x, f, r, c), b = vnadata_get_cell(w, f, r, c);')
        L.append('      if (!(cabs(a - b) <= 1e-9 * (1.0 + cabs(a)))) { fprintf(stderr, "VF-ASSERT-FAIL: cell (%d,%d,%d): saved %g%+gi loaded %g%+gi\\n", f, r, c, creal(a), cimag(a), creal(b), cimag(b)); bad = 1; } } }')
    L.append('  unlink(fn); vnadata_free(v); vnadata_free(w); vnadata_free(x); return bad; }')
    return '\n'.join(L) + '\n'


def run(tier, only=None):
    from props import calrun
    import sys
    sys.path.insert(0, os.path.join(core.VERIF, 'oracle'))
    t0 = time.time()
    ctx = core.Ctx()
    try:
        ml = calrun.build_whole_ir(ctx); calrun.load_module(ml)
        jobs = [j for j in jobs_for(tier) if not only or only in j['id']]
        results = calrun.run_jobs(io_worker, jobs, par=max(1, core.NCPU - 1), timeout=600 if tier == 'quick' else 3000, mem_gb=10)
        native = calrun.Native(ctx); viol = []
        for r, j in zip(results, jobs):
            if r.get('error'): continue
            whats = []
            if r.get('fault'): whats.append('memory fault / abort in the symbolic run of the real code: ' + r['fault'])
            for x in r.get('sat', []): whats.append('%s %s' % (x.get('q'), json.dumps({k: v for k, v in x.items() if k not in ('q',)}, default=str)[:300]))
            if not whats: continue
            rd = os.path.join(core.VERIF, 'evidence', 'replay', 'C06_' + re.sub(r'\W+', '_', r['id']))
            ok, how, outp = native.run_c(native_program(j), rd)
            json.dump({'property': 'C06', 'job': j, 'what': whats, 'native': how}, open(os.path.join(rd, 'cex.json'), 'w'), indent=1, default=str)
            viol.append({'id': r['id'], 'what': ' ;; '.join(whats), 'replay': rd, 'confirmed': ok, 'how': how})
        meta = {'checker_cmd': 'clang-14 -O0 -emit-llvm (whole library) | llvm-link | opt -mem2reg | vf/irx.py (symbolic save -> file bytes -> load over an in-memory file system) | z3',
                'trusted_base': ['clang-14 front end', 'vf/irparse.py, irsym.py, irx.py (incl. its printf / strtod / stdio model and the placeholder mechanism)', 'z3',
                                 'oracle/netfile_reader.py (independent Touchstone 1 / 2 / NPD reader written from the format documents)', 'clang ASan/UBSan native build for replay'],
                'functions': ['vnadata_cksave', 'vnadata_save', 'vnadata_load', 'vnadata_convert', 'vnadata_set_format', '_vnadata_parse_filename', '_vnadata_load_touchstone', '_vnadata_load_npd', 'print_value', '...'],
                'bounds': '%d jobs: S/Z/Y with 1..%d ports, H/G/T/U/A/B 2 ports, ZIN 1..3 ports; files .sNp (Touchstone 1), .ts (Touchstone 2), .npd; own-type and converted formats in rectangular (RI) coordinates incl. multi-parameter NPD; '
                          'impedances: default 50, one symbolic positive resistance, symbolic per-port resistances, symbolic complex per-port, symbolic complex per-frequency; precision default and VNADATA_MAX_PRECISION (hex floats); '
                          '2 concrete frequencies (1 GHz, 2.5 GHz); every data cell a free complex symbol; 11 refused combinations' % (len(jobs), 3 if tier == 'quick' else 4),
                'outside': 'the digits of symbolic values (a printed symbolic double is a placeholder: the claim is exact transfer, not "n significant digits"), MA / DB and the other NPD coordinate forms (transcendental), '
                           'more than 2 frequencies / > 4 ports, vnadata_fsave / fload with caller-supplied streams, I/O errors',
                'explanation': __doc__,
                'assumptions': ['exact real arithmetic', 'Re z0 > 0', 'generic values'],
                'samples': [{'id': r.get('id'), 'paths': r.get('paths'), 'queries': r.get('queries'), 'file_bytes': r.get('file_bytes'), 'placeholders': r.get('placeholders'), 'time_s': r.get('time')} for r in results[:30]]}
        rc, ev = calrun.report('C06', tier, results, viol, meta, t0)
        return rc
    finally:
        ctx.close()
