"""Shared driver for the whole-flow (irx) checks: builds the IR of the whole library from /repo's working tree, parses it once,
forks one process per job (copy-on-write module; a z3 crash / timeout / memory blow-up loses one job, which is an error, never a
pass), and replays counterexamples natively (clang-14 ASan + UBSan build of the unmodified sources)."""
import os, sys, time, json, subprocess, traceback, signal, resource, re
import multiprocessing as mp
from concurrent.futures import ThreadPoolExecutor
from vf import core

MOD = None          # irparse.Module of the whole library (set by load_module in the parent, inherited by forked workers)


def build_whole_ir(ctx, extra=()):
    """clang-14 -O0 IR of every library TU, linked, mem2reg (cabs / __muldc3 / __divdc3 stay external: irx gives them exact semantics)"""
    libll = ctx.lib_ll()
    files = [f for f in ctx.lib_sources()]
    al = os.path.join(ctx.dir, 'whole.ll'); ml = os.path.join(ctx.dir, 'whole_m2r.ll')
    r = subprocess.run(['llvm-link-14', '-S'] + [libll[f] for f in files] + list(extra) + ['-o', al], capture_output=True, text=True)
    if r.returncode != 0: raise RuntimeError(r.stderr[-2000:])
    r = subprocess.run(['opt-14', '-S', '-mem2reg', al, '-o', ml], capture_output=True, text=True)
    if r.returncode != 0: raise RuntimeError(r.stderr[-2000:])
    return ml


def load_module(ml):
    global MOD
    sys.setrecursionlimit(200000)
    from irparse import Module
    MOD = Module(open(ml).read())
    return MOD


def _child(fn, job, wfd, mem_gb):
    try:
        if mem_gb: resource.setrlimit(resource.RLIMIT_AS, (int(mem_gb * (1 << 30)), int(mem_gb * (1 << 30))))
        t0 = time.time()
        try:
            r = fn(MOD, job)
        except MemoryError:
            r = {'error': 'out of memory (limit %s GB)' % mem_gb}
        except Exception as e:
            r = {'error': '%s: %s' % (type(e).__name__, e), 'traceback': traceback.format_exc()[-3000:]}
        r.setdefault('id', job.get('id')); r['time'] = round(time.time() - t0, 2)
        data = json.dumps(r, default=str).encode()
        with os.fdopen(wfd, 'wb') as f: f.write(data)
    finally:
        os._exit(0)


def run_jobs(fn, jobs, par=14, timeout=300, mem_gb=8):
    """fn(MOD, job) -> dict, each job in a forked child; returns list of result dicts in job order (lost jobs carry 'error')"""
    out = [None] * len(jobs); pending = list(range(len(jobs))); running = {}
    while pending or running:
        while pending and len(running) < par:
            i = pending.pop(0)
            rfd, wfd = os.pipe()
            pid = os.fork()
            if pid == 0:
                os.close(rfd)
                _child(fn, jobs[i], wfd, mem_gb)
            os.close(wfd)
            os.set_blocking(rfd, False)
            running[pid] = [i, rfd, time.time(), b'']
        time.sleep(0.05)
        for pid in list(running):
            i, rfd, t0, buf = running[pid]
            try:
                while True:
                    chunk = os.read(rfd, 1 << 16)
                    if not chunk: break
                    running[pid][3] += chunk
            except BlockingIOError:
                pass
            done, st = os.waitpid(pid, os.WNOHANG)
            if done:
                try:
                    while True:
                        chunk = os.read(rfd, 1 << 16)
                        if not chunk: break
                        running[pid][3] += chunk
                except BlockingIOError:
                    pass
                os.close(rfd)
                buf = running[pid][3]
                try: out[i] = json.loads(buf.decode())
                except Exception: out[i] = {'id': jobs[i].get('id'), 'error': 'worker died (status %s)' % st, 'time': round(time.time() - t0, 1)}
                del running[pid]
            elif time.time() - t0 > timeout:
                try: os.kill(pid, signal.SIGKILL)
                except Exception: pass
                os.waitpid(pid, 0); os.close(rfd)
                out[i] = {'id': jobs[i].get('id'), 'error': 'timeout after %ds' % timeout, 'time': timeout}
                del running[pid]
    return out


# ---------------------------------------------------------------------------------------------------------------------
# native replay

class Native:
    """clang-14 -fsanitize=address,undefined build of the unmodified library sources (clang's ASan also guards variable-length
    arrays, which gcc's does not), built once per invocation on first use"""
    def __init__(s, ctx):
        s.ctx = ctx; s.lib = None

    def build(s):
        if s.lib: return s.lib
        d = os.path.join(s.ctx.dir, 'clasan'); os.makedirs(d, exist_ok=True)
        def one(f):
            o = os.path.join(d, f[:-2] + '.o')
            r = subprocess.run(['clang-14', '-w', '-O0', '-g', '-fsanitize=address,undefined', '-fno-omit-frame-pointer', '-DHAVE_CONFIG_H',
                                '-I' + core.REPO, '-I' + core.SRC, '-c', os.path.join(core.SRC, f), '-o', o], capture_output=True, text=True)
            if r.returncode != 0: raise RuntimeError('clang failed on %s: %s' % (f, r.stderr[-1000:]))
            return o
        with ThreadPoolExecutor(core.NCPU) as ex: objs = list(ex.map(one, s.ctx.lib_sources()))
        s.lib = os.path.join(d, 'libvna_clasan.a')
        subprocess.run(['ar', 'rcs', s.lib] + objs, check=True)
        return s.lib

    def build_plain(s):
        if getattr(s, 'plain', None): return s.plain
        d = os.path.join(s.ctx.dir, 'plain'); os.makedirs(d, exist_ok=True)
        def one(f):
            o = os.path.join(d, f[:-2] + '.o')
            r = subprocess.run(['gcc', '-w', '-O0', '-g', '-DHAVE_CONFIG_H', '-I' + core.REPO, '-I' + core.SRC, '-c', os.path.join(core.SRC, f), '-o', o], capture_output=True, text=True)
            if r.returncode != 0: raise RuntimeError('gcc failed on %s: %s' % (f, r.stderr[-1000:]))
            return o
        with ThreadPoolExecutor(core.NCPU) as ex: objs = list(ex.map(one, s.ctx.lib_sources()))
        s.plain = os.path.join(d, 'libvna_plain.a')
        subprocess.run(['ar', 'rcs', s.plain] + objs, check=True)
        return s.plain

    def run_valgrind(s, csrc, outdir, name='replay', timeout=120):
        """reads of uninitialised memory are invisible to ASan / UBSan: the same program under valgrind memcheck (gcc -O0 build)"""
        os.makedirs(outdir, exist_ok=True)
        src = os.path.join(outdir, name + '.c'); open(src, 'w').write(csrc)
        exe = os.path.join(s.ctx.dir, 'vg_%d_%s' % (os.getpid(), re.sub(r'\W', '_', name)))
        r = subprocess.run(['gcc', '-w', '-O0', '-g', '-I' + core.SRC, '-I' + core.REPO, src, s.build_plain(), '-lyaml', '-lm', '-o', exe], capture_output=True, text=True)
        if r.returncode != 0: return False, 'native build failed', r.stderr[-1500:]
        try:
            p = subprocess.run(['valgrind', '-q', '--error-exitcode=9', exe], capture_output=True, text=True, errors='replace', timeout=timeout, cwd=outdir)
        except subprocess.TimeoutExpired:
            return False, 'valgrind run timed out', ''
        finally:
            pass
        outp = (p.stdout + p.stderr)[-4000:]
        try: os.unlink(exe)
        except OSError: pass
        open(os.path.join(outdir, 'valgrind.log'), 'w').write(outp)
        open(os.path.join(outdir, 'replay.sh'), 'w').write(
            '#!/bin/sh\n# re-run under valgrind memcheck (uninitialised reads): gcc -O0 build of /repo/src\nset -e\ncd "$(dirname "$0")"\nd=$(mktemp -d)\n'
            'for f in /repo/src/vna*.c; do case $f in *example*) continue;; esac; gcc -w -O0 -g -DHAVE_CONFIG_H -I/repo -I/repo/src -c $f -o $d/$(basename $f .c).o; done\n'
            'gcc -w -O0 -g -I/repo/src -I/repo %s.c $d/*.o -lyaml -lm -o $d/replay\nset +e\nvalgrind -q --error-exitcode=9 $d/replay; rc=$?; rm -rf $d; exit $rc\n' % name)
        os.chmod(os.path.join(outdir, 'replay.sh'), 0o755)
        if p.returncode == 9 or 'uninitialised' in outp: return True, 'valgrind memcheck: use of uninitialised value', outp
        return False, 'valgrind run is clean', outp

    def confirm(s, csrc, outdir, fault=None, extra_files=None):
        """sanitizer build first; a read of uninitialised memory (invisible to ASan / UBSan) goes to valgrind"""
        ok, how, outp = s.run_c(csrc, outdir, extra_files=extra_files)
        if not ok and fault and 'uninitialised' in fault:
            return s.run_valgrind(csrc, outdir)
        return ok, how, outp

    def run_c(s, csrc, outdir, name='replay', timeout=60, extra_files=None):
        """compile + run a C program against the sanitizer build; returns (confirmed: bool, how: str, output tail)"""
        os.makedirs(outdir, exist_ok=True)
        src = os.path.join(outdir, name + '.c'); open(src, 'w').write(csrc)
        for fn, data in (extra_files or {}).items(): open(os.path.join(outdir, fn), 'wb').write(data)
        exe = os.path.join(s.ctx.dir, 'replay_%d_%s' % (os.getpid(), re.sub(r'\W', '_', name)))
        r = subprocess.run(['clang-14', '-w', '-O0', '-g', '-fsanitize=address,undefined', '-I' + core.SRC, '-I' + core.REPO, src, s.build(),
                            '-lyaml', '-lm', '-o', exe], capture_output=True, text=True)
        if r.returncode != 0: return False, 'native build failed', r.stderr[-1500:]
        env = dict(os.environ, ASAN_OPTIONS='detect_leaks=1:abort_on_error=0', UBSAN_OPTIONS='print_stacktrace=1:halt_on_error=1')
        try:
            p = subprocess.run([exe], capture_output=True, text=True, errors='replace', timeout=timeout, cwd=outdir, env=env)
            outp = (p.stdout + p.stderr)[-4000:]; rc = p.returncode
        except subprocess.TimeoutExpired:
            return True, 'native run hangs (> %ds)' % timeout, ''
        finally:
            try: os.unlink(exe)
            except OSError: pass
        open(os.path.join(outdir, 'native.log'), 'w').write(outp)
        open(os.path.join(outdir, 'replay.sh'), 'w').write(
            '#!/bin/sh\n# re-run: builds the library sources of /repo with clang ASan/UBSan and runs %s.c\nset -e\ncd "$(dirname "$0")"\nd=$(mktemp -d)\n'
            'for f in /repo/src/vna*.c; do case $f in *example*) continue;; esac; clang-14 -w -O0 -g -fsanitize=address,undefined -DHAVE_CONFIG_H -I/repo -I/repo/src -c $f -o $d/$(basename $f .c).o; done\n'
            'clang-14 -w -O0 -g -fsanitize=address,undefined -I/repo/src -I/repo %s.c $d/*.o -lyaml -lm -o $d/replay\nset +e\n$d/replay; rc=$?; rm -rf $d; exit $rc\n' % (name, name))
        os.chmod(os.path.join(outdir, 'replay.sh'), 0o755)
        for pat, how in (('AddressSanitizer', 'AddressSanitizer report'), ('LeakSanitizer', 'LeakSanitizer report'), ('runtime error:', 'UBSan report'),
                         ('VF-ASSERT-FAIL', 'native assertion of the property failed'), ('Assertion', 'library assert()')):
            if pat in outp: return True, how, outp
        if rc != 0: return True, 'native program exits %d' % rc, outp
        return False, 'native run passes', outp


# ---------------------------------------------------------------------------------------------------------------------
# verdict handling shared by the flow checks

def known_open(pid):
    k = core.load_known()
    return [e for e in k.get('open', []) if isinstance(e, dict) and e.get('property') == pid]


def report(pid, tier, results, violations, meta, t0, extra_cov=None):
    """results: worker dicts (with 'error' for lost jobs, 'unknown' lists); violations: list of dict(id, what, replay, confirmed, how)
    Writes evidence/<pid>.json (unless meta['evidence'] is False), prints the protocol lines, returns the exit code."""
    errs = [r for r in results if r.get('error')]
    unk = [(r, u) for r in results for u in (r.get('unknown') or [])]
    nq = sum(r.get('queries', 0) for r in results); nu = sum(r.get('unsat', 0) for r in results)
    known = known_open(pid)
    real = []; khits = []; unconf = []
    for v in violations:
        if not v.get('confirmed'): unconf.append(v); continue
        hit = None
        for k in known:
            if re.search(k.get('match', '$^'), v['id'] + ' ' + v['what']): hit = k; break
        (khits if hit else real).append((v, hit) if hit else v)
    cov = {'obligations': nq, 'discharged': nu, 'checker_cmd': meta['checker_cmd'], 'trusted_base': meta['trusted_base'],
           'functions_encoded': meta.get('functions'), 'bounds': meta['bounds'], 'outside': meta['outside'],
           'solver_time_s': round(sum(r.get('time', 0) for r in results), 1), 'jobs': len(results),
           'paths_explored': sum(r.get('paths', 0) for r in results),
           'errors': [{'id': r.get('id'), 'error': r['error']} for r in errs][:40],
           'unknown': [{'id': r.get('id'), 'q': str(u)[:300]} for r, u in unk][:40],
           'explanation': meta['explanation'],
           'samples': meta.get('samples', [])}
    if extra_cov: cov.update(extra_cov)
    if real or khits or unconf:
        cov['violations'] = [{'id': v['id'], 'what': v['what'][:600], 'replay': v.get('replay'), 'native': v.get('how')} for v in real] + \
                            [{'id': v['id'], 'what': v['what'][:600], 'known_finding': True} for v, _ in khits]
        cov['unconfirmed'] = [{'id': v['id'], 'what': v['what'][:600], 'native': v.get('how')} for v in unconf]
    ev = {'property_id': pid, 'tier': tier, 'seed': int(os.environ.get('VERIF_SEED', '0') or 0), 'level': meta.get('level', 'proof'), 'coverage': cov,
          'assumptions': meta['assumptions'], 'wall_s': round(time.time() - t0, 1), 'violations': len(real)}
    if meta.get('evidence', True):
        json.dump(ev, open(os.path.join(core.VERIF, 'evidence', pid + '.json'), 'w'), indent=1)
    for r in errs: print('ERROR property=%s job=%s %s' % (pid, r.get('id'), r['error'][:300]))
    for r, u in unk[:20]: print('INCOMPLETE property=%s job=%s %s' % (pid, r.get('id'), str(u)[:200]))
    for v in unconf: print('UNCONFIRMED property=%s job=%s %s (native: %s)' % (pid, v['id'], v['what'][:300], v.get('how')))
    for v, k in khits: print('KNOWN-FINDING: property=%s %s' % (pid, k.get('text', v['what'][:200])))
    for v in real:
        print('VIOLATION property=%s replay=%s' % (pid, v['replay'])); print('  job=%s %s (native: %s)' % (v['id'], v['what'][:400], v.get('how')))
    print('%s %s: %d jobs, %d paths, %d queries, %d discharged, %d violations, %d known, %d unconfirmed, %d unknown, %d errors, %.1fs' %
          (pid, tier, len(results), cov['paths_explored'], nq, nu, len(real), len(khits), len(unconf), len(unk), len(errs), time.time() - t0))
    if real: return 1, ev
    if errs or unk or unconf or nq == 0: return 2, ev
    return 0, ev


def replay_script_dir(d):
    """./check --replay <dir> for flow-check counterexamples: run the recorded native program against the current /repo"""
    sh = os.path.join(d, 'replay.sh')
    p = subprocess.run(['sh', sh], capture_output=True, text=True, errors='replace')
    out = (p.stdout + p.stderr)[-3000:]
    print(out)
    bad = p.returncode != 0 or any(x in out for x in ('AddressSanitizer', 'LeakSanitizer', 'runtime error:', 'VF-ASSERT-FAIL'))
    print('replay: %s' % ('confirmed' if bad else 'not reproduced'))
    return 1 if bad else 0
