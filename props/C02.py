"""C02 (one clause): with unknown standard parameters the iteration limit bounds the work - vnacal_new_solve always returns, failing
with a math error (EDOM, one message) rather than hanging, and whatever it returns it has touched only memory it owns and leaks nothing.

Engine: the real vnacal_new_add_* .. vnacal_new_solve (_vnacal_new_solve_auto: Levenberg-Marquardt / variable projection) executed by the
whole-flow symbolic interpreter vf/irx.py with every measured value a free complex symbol and the numeric kernels it calls
(_vnacommon_qr, _vnacommon_qrsolve2, _vnacommon_mldivide) replaced by hooks that return ARBITRARY values (fresh symbols; full rank,
non-zero determinant): an over-approximation of every behaviour of the real kernels on well-posed data.  All comparisons on those values
(improvement test, Marquardt multiplier, convergence tests) fork; every feasible combination of outcomes is explored for iteration
limits 0..2 set through vnacal_new_set_iteration_limit.  Decided per path: the call returns; the number of linearisations is at most
limit + 1; a failure is -1 with errno EDOM and exactly one new error message; success installs a calibration; no memory fault on the
checked heap / stack objects; after vnacal_new_free + vnacal_free nothing stays allocated.

Convergence to the true values (the rest of C02) is a statement about a floating-point iteration and is outside: see DESIGN.md.
"""
import os, re, json, time
from fractions import Fraction
from vf import core


def configs():
    from props.calflow import Std as S, Config, T8, U8, TE10, UE14, E12
    from props import calcfg
    C = []
    unk = ('unk', 'r')
    # an unknown reflect added through the double-reflect and the single-reflect entry points (the second leaves S cells unspecified)
    C.append(Config(T8, 2, 2, [S('double', [1, 2], [unk, unk])] + calcfg.solt2(), name='T8-2x2-unknown-double-reflect'))
    C.append(Config(T8, 2, 2, [S('single', [1], [unk])] + calcfg.solt2(), name='T8-2x2-unknown-single-reflect'))
    C.append(Config(U8, 2, 2, [S('single', [2], [unk])] + calcfg.solt2(), name='U8-2x2-unknown-single-reflect'))
    C.append(Config(T8, 1, 1, [S('single', [1], [unk])] + calcfg.reflects1(1), name='T8-1x1-unknown-reflect'))
    C.append(Config(UE14, 2, 2, [S('double', [1, 2], [unk, unk])] + calcfg.solt2(), name='UE14-2x2-unknown-double-reflect'))
    C.append(Config(E12, 2, 2, [S('single', [1], [unk])] + calcfg.solt2(), name='E12-2x2-unknown-single-reflect'))
    C.append(Config(TE10, 2, 2, [S('line', [1, 2], ['match', ('unk', 'l'), ('unk', 'l'), 'match'])] + calcfg.solt2(), name='TE10-2x2-unknown-line'))
    return C


class PathResult(Exception):
    pass


def run_once(mod, cfg, limit, choices, holder):
    import z3, irsym, irx
    from irx import NULL, sgn, Special
    from irsym import Rat, Ptr
    from props import calflow as cf
    from props.calflow import C, csym, cconst
    flow = cf.Flow(mod); it = flow.it
    holder['flow'] = flow
    it.choices = list(choices); it.generic = True
    res = {'queries': 0, 'unsat': 0, 'sat': [], 'unknown': [], 'linearisations': 0}
    nfresh = [0]
    def fresh(tag):
        nfresh[0] += 1
        return csym('%s%d' % (tag, nfresh[0]))
    def wr(p, k, v):
        it.store(Ptr(p.obj, p.off + 16 * k), v.re, 8); it.store(Ptr(p.obj, p.off + 16 * k + 8), v.im, 8)
    counts = {'qr': 0, 'qrsolve2': 0, 'mldivide': 0}
    def h_qr(it_, a):
        A, Q, R, m, n = a; m = sgn(m, 32); n = sgn(n, 32)
        counts['qr'] += 1
        for i in range(m * n): it_.load(Ptr(A.obj, A.off + 16 * i), irx.TFloat('double'))        # the kernel reads all of A (checked)
        for i in range(m * m): wr(Q, i, fresh('q'))
        for i in range(m * n): wr(R, i, fresh('r'))
        return n
    def h_qrsolve2(it_, a):
        x, Q, R, b, m, n, o = a; m = sgn(m, 32); n = sgn(n, 32); o = sgn(o, 32)
        counts['qrsolve2'] += 1
        for i in range(m * o): it_.load(Ptr(b.obj, b.off + 16 * i), irx.TFloat('double'))
        for i in range(n * o): wr(x, i, fresh('x'))
        return None
    def h_mldivide(it_, a):
        x, A, b, m, n = a; m = sgn(m, 32); n = sgn(n, 32)
        if not flow.capture: return it_.run(it_.m.funcs['@_vnacommon_mldivide'], a)
        counts['mldivide'] += 1
        for i in range(m * m): it_.load(Ptr(A.obj, A.off + 16 * i), irx.TFloat('double'))
        for i in range(m * n): wr(x, i, fresh('d'))
        d = fresh('det')
        return (d.re, d.im)
    it.hooks['_vnacommon_qr'] = h_qr; it.hooks['_vnacommon_qrsolve2'] = h_qrsolve2; it.hooks['_vnacommon_mldivide'] = h_mldivide
    def check(cond, q, detail=None):
        res['queries'] += 1
        if cond: res['unsat'] += 1
        else: res['sat'].append({'q': q, 'detail': detail})
        return cond
    flow.create(); flow.new_alloc(cfg.typ, cfg.rows, cfg.cols, 1)
    assert flow.set_frequencies([Fraction(10 ** 9)]) == 0
    assert flow.icall('vnacal_new_set_iteration_limit', [flow.vnp, limit]) == 0
    # both tolerances are free positive symbols: the convergence decision must depend on each of them (checked over all paths by the worker)
    import z3 as _z3
    it.path.append(_z3.Real('tol_p') > 0); it.path.append(_z3.Real('tol_et') > 0)
    assert flow.icall('vnacal_new_set_p_tolerance', [flow.vnp, Rat(_z3.Real('tol_p'))]) == 0
    assert flow.icall('vnacal_new_set_et_tolerance', [flow.vnp, Rat(_z3.Real('tol_et'))]) == 0
    npath0 = len(it.path)
    symcache = {}
    def val(spec, tag):
        if isinstance(spec, str): return cconst(cf.PRE[spec][1])
        if spec not in symcache: symcache[spec] = csym('p_' + spec[1])
        return symcache[spec]
    handles = {}
    for k, st in enumerate(cfg.stds):
        sm = cf.std_model(cfg, st, k, val)
        mvals, avals, Mfull = cf.oracle_measurements(cfg, st, k, sm, symbolic=True, mvalue=lambda r, c, k=k: csym('m%d_%d%d' % (k, r, c)))
        rc = cf.add_standard(flow, cfg, st, k, mvals, avals, handles, val)
        if not check(rc == 0, 'standard %d is accepted' % k, it.errors[-1:]): return res
    nerr = len(it.errors)
    it.set_errno(0)
    rc = flow.solve()
    res['linearisations'] = counts['qr']; res['rc'] = rc
    check(rc in (0, -1), 'vnacal_new_solve returns 0 or -1', rc)
    check(counts['qr'] <= limit + 1, 'at most limit + 1 linearisations (limit %d)' % limit, counts['qr'])
    if rc == -1:
        check(it.get_errno() == 33, 'a failing solve sets EDOM', it.get_errno())
        check(len(it.errors) == nerr + 1, 'a failing solve reports exactly one error', [m.decode() for c_, m in it.errors[nerr:]])
        res['message'] = it.errors[-1][1].decode() if len(it.errors) > nerr else None
    else:
        check(len(it.errors) == nerr, 'a successful solve reports no error', [m.decode() for c_, m in it.errors[nerr:]])
        ci = flow.icall('vnacal_add_calibration', [flow.vcp, it.static_str(b'c'), flow.vnp])
        check(ci >= 0, 'the solved calibration can be installed', ci)
    flow.call('vnacal_new_free', [flow.vnp]); flow.call('vnacal_free', [flow.vcp])
    leaks = it.live_heap()
    check(not leaks, 'nothing stays allocated after vnacal_new_free + vnacal_free', len(leaks))
    names = set()
    for pc in it.__dict__.get('forked_conds', []):       # only two-sided decisions count: a condition that can go only one way decides nothing
        for v in it._vars_of(pc): names.add(v.decl().name())
    res['mentions'] = sorted(n for n in names if n in ('tol_p', 'tol_et'))
    return res


def worker(mod, job):
    import irx
    from props.calflow import all_paths
    cfg = [c for c in configs() if c.name == job['cfg']][0]
    out = {'id': job['id'], 'paths': 0, 'queries': 0, 'unsat': 0, 'sat': [], 'unknown': [], 'fault': None, 'outcomes': {}, 'max_linearisations': 0, 'funcs': []}
    funcs = set()
    def run(ch, h):
        r = run_once(mod, cfg, job['limit'], ch, h)
        funcs.update(h['flow'].it.funcs_run)
        return r
    try:
        rs = all_paths(run, max_paths=job.get('max_paths', 600))
    except (irx.MemFault, irx.LibAbort) as e:
        out['fault'] = '%s: %s' % (type(e).__name__, e); return out
    for r in rs:
        out['paths'] += 1; out['queries'] += r['queries']; out['unsat'] += r['unsat']; out['sat'] += r['sat']; out['unknown'] += r['unknown']
        key = 'success' if r.get('rc') == 0 else (r.get('message') or 'rc=%s' % r.get('rc'))
        key = re.sub(r'at [0-9.e+-]+ Hz', 'at <f> Hz', key)
        out['outcomes'][key] = out['outcomes'].get(key, 0) + 1
        out['max_linearisations'] = max(out['max_linearisations'], r.get('linearisations', 0))
    seen = set(n for r in rs for n in r.get('mentions', []))
    out['tolerances_in_decisions'] = sorted(seen)
    for nm, what in (('tol_p', 'the parameter tolerance (vnacal_new_set_p_tolerance)'), ('tol_et', 'the error-term tolerance (vnacal_new_set_et_tolerance)')):
        if nm in seen: out['queries'] += 1; out['unsat'] += 1
        else: out['sat'].append({'q': 'tolerance: %s takes part in some convergence decision (a tolerance that no branch condition mentions cannot tighten the result)' % what,
                                 'detail': 'none of the %d explored paths has a branch condition that depends on it' % len(rs)})
    out['funcs'] = sorted(funcs)
    return out


def native_program_tolerance(cfg):
    """p tolerance huge, error-term tolerance unreachable (1e-300), one iteration allowed: a solve that still reports convergence ignores the error-term tolerance"""
    from props import calflow as cf
    src = cf.native_program(cfg)
    return src.replace('    CHECK(vnacal_new_solve(vnpA));', '    CHECK(vnacal_new_set_iteration_limit(vnpA, 1)); CHECK(vnacal_new_set_p_tolerance(vnpA, 1e30)); CHECK(vnacal_new_set_et_tolerance(vnpA, 1e-300));\n'
                       '    { int rc = vnacal_new_solve(vnpA); if (rc == 0) { fprintf(stderr, "VF-ASSERT-FAIL: vnacal_new_solve reports convergence after one step although the error terms moved by more than the error-term tolerance 1e-300\\n"); vnacal_new_free(vnpA); vnacal_free(vcp); return 1; }\n'
                       '      vnacal_new_free(vnpA); vnacal_free(vcp); printf("not converged, as the tolerance demands\\n"); return 0; }')


def native_program(cfg, limit):
    """the same configuration natively (numeric data from the forward model, unknown parameter started near its true value)"""
    from props import calflow as cf
    src = cf.native_program(cfg)
    src = src.replace('    CHECK(vnacal_new_solve(vnpA));', '    CHECK(vnacal_new_set_iteration_limit(vnpA, %d));\n    { int rc = vnacal_new_solve(vnpA); if (rc != 0 && rc != -1) { fprintf(stderr, "VF-ASSERT-FAIL: solve returned %%d\\n", rc); return 1; } if (rc == -1) { if (errno != EDOM) { fprintf(stderr, "VF-ASSERT-FAIL: errno %%d\\n", errno); return 1; } vnacal_new_free(vnpA); vnacal_free(vcp); printf("solve failed with EDOM\\n"); return 0; } }' % max(limit, 30))
    return src


def run(tier, only=None):
    from props import calrun
    t0 = time.time()
    ctx = core.Ctx()
    try:
        ml = calrun.build_whole_ir(ctx); calrun.load_module(ml)
        limits = (1, 2) if tier == 'quick' else (1, 2, 3)
        jobs = [{'id': '%s-limit%d' % (c.name, L), 'cfg': c.name, 'limit': L} for c in configs() for L in limits
                if tier != 'quick' or L == 1]
        if only: jobs = [j for j in jobs if only in j['id']]
        results = calrun.run_jobs(worker, jobs, par=max(1, core.NCPU - 1), timeout=900 if tier == 'quick' else 3000, mem_gb=10)
        native = calrun.Native(ctx); viol = []
        cfgs = {c.name: c for c in configs()}
        for r, j in zip(results, jobs):
            if r.get('error'): continue
            tol = [x for x in r.get('sat', []) if 'tolerance:' in str(x.get('q'))]
            other = [x for x in r.get('sat', []) if 'tolerance:' not in str(x.get('q'))]
            groups = []
            if r.get('fault') or other:
                w = (['memory fault / abort in the symbolic run of the real code: ' + r['fault']] if r.get('fault') else []) + ['%s %s' % (x.get('q'), json.dumps(x.get('detail'), default=str)[:300]) for x in other]
                groups.append(('', w, native_program(cfgs[j['cfg']], j['limit'])))
            for x in tol:       # each tolerance finding is its own violation (so that a listed known finding never hides another one)
                groups.append(('_' + ('et' if 'error-term' in x['q'] else 'p') + 'tol', ['%s %s' % (x.get('q'), json.dumps(x.get('detail'), default=str)[:300])], native_program_tolerance(cfgs[j['cfg']])))
            for sfx, whats, src in groups:
                rd = os.path.join(core.VERIF, 'evidence', 'replay', 'C02_' + re.sub(r'\W+', '_', r['id']) + sfx)
                ok, how, outp = native.run_c(src, rd)
                json.dump({'property': 'C02', 'job': j, 'what': whats[:10], 'native': how}, open(os.path.join(rd, 'cex.json'), 'w'), indent=1, default=str)
                viol.append({'id': r['id'], 'what': ' ;; '.join(whats[:6]), 'replay': rd, 'confirmed': ok, 'how': how})
        funcs = sorted(set(f for r in results for f in (r.get('funcs') or [])))
        meta = {'checker_cmd': 'clang-14 -O0 -emit-llvm (whole library) | llvm-link | opt -mem2reg | vf/irx.py (symbolic run of solve_auto with arbitrary-valued kernel hooks, all branch outcomes) | z3 (feasibility)',
                'trusted_base': ['clang-14 front end', 'vf/irparse.py, irsym.py, irx.py', 'z3 (branch feasibility)', 'the kernel hooks (arbitrary values, full rank, non-zero determinant)', 'clang ASan/UBSan native build for replay'],
                'functions': funcs,
                'bounds': '%d jobs: 7 calibrations with one unknown parameter (reflect through double / single reflect entry, unknown line) of types T8, U8, TE10, UE14, E12, 1 frequency, iteration limits %s; every measured value a free complex symbol, '
                          'every kernel result a fresh symbol per call; every feasible combination of comparison outcomes explored' % (len(jobs), list(limits)),
                'outside': 'convergence to the true values and the effect of the tolerances (floating-point iteration: not decidable here), the closed-form TRL path, correlated parameters, measurement-error weighting, several frequencies, iteration limits > 3, '
                           'kernels reporting rank deficiency',
                'explanation': __doc__, 'level': 'proof',
                'assumptions': ['kernels return arbitrary finite values (over-approximation)', 'generic values'],
                'samples': [{'id': r.get('id'), 'paths': r.get('paths'), 'outcomes': r.get('outcomes'), 'max_linearisations': r.get('max_linearisations'), 'time_s': r.get('time')} for r in results[:30]]}
        rc, ev = calrun.report('C02', tier, results, viol, meta, t0)
        return rc
    finally:
        ctx.close()
