"""C19: linear systems.  Engine R (clang IR -> vf/irsym.py -> z3) on the real _vnacommon_lu / mldivide / mrdivide / minverse:
   C19.a  exactness over the complex field on EVERY feasible pivot path: A X = B, X A = B, A X = I, returned determinant = det A,
          row_index is a permutation  (n = 1..2 quick, 3 thorough)
   C19.b  pivot rule: the row chosen in the first column maximises |a_i0| / max_j |a_ij| (scaled partial pivoting as documented in
          the source); a solver counterexample is replayed NUMERICALLY on the gcc-compiled function with a badly row-scaled system and
          only reported if the computed solution's relative error is far above machine precision while the well-scaled pivot choice is accurate
Claims of C19.a are algebraic (exact field): silent about rounding.  C19.b's replay is the rounding-level confirmation.
"""
import os, sys, re, json, time, subprocess
sys.path.insert(0, os.path.join(os.path.dirname(os.path.dirname(os.path.abspath(__file__))), 'oracle'))
from vf import core
from props.C04 import build_ir, run_isolated


def _worker(job):
    import z3
    from irparse import Module, TFloat, TInt
    import irsym
    from irsym import Rat, Ptr
    import vnaconv_rel as R
    kind, m_, n_ = job['kind'], job['m'], job['n']
    t0 = time.time()
    mod = Module(open(job['ir']).read())
    res = {'fn': '%s[%dx%d]' % (kind, m_, n_), 'kind': kind, 'queries': 0, 'unsat': 0, 'details': [], 'paths': 0}
    D = TFloat('double'); I32 = TInt(32)

    def sym(name): return R.C(Rat(z3.Real(name + 'r')), Rat(z3.Real(name + 'i')))

    def put(it, obj, mat, rows, cols):
        it.alloc(obj)
        for r in range(rows):
            for c in range(cols):
                it.store(Ptr(obj, 16 * (cols * r + c)), mat[r][c].re); it.store(Ptr(obj, 16 * (cols * r + c) + 8), mat[r][c].im)

    def get(it, obj, rows, cols):
        return [[R.C(it.load(Ptr(obj, 16 * (cols * r + c)), D), it.load(Ptr(obj, 16 * (cols * r + c) + 8), D)) for c in range(cols)] for r in range(rows)]

    def mdict(mdl):
        if mdl is None or isinstance(mdl, str): return mdl
        o = {}
        for d in mdl.decls():
            try: o[d.name()] = str(mdl[d].as_fraction())
            except Exception: o[d.name()] = '1'
        return o

    def det(M):
        k = len(M)
        if k == 1: return M[0][0]
        if k == 2: return M[0][0] * M[1][1] - M[0][1] * M[1][0]
        return (M[0][0] * (M[1][1] * M[2][2] - M[1][2] * M[2][1]) - M[0][1] * (M[1][0] * M[2][2] - M[1][2] * M[2][0])
                + M[0][2] * (M[1][0] * M[2][1] - M[1][1] * M[2][0]))

    def setup(it):
        if kind == 'mldivide':      # X(m x n) = A(m x m)^-1 B(m x n)
            A = [[sym('a%d%d' % (r, c)) for c in range(m_)] for r in range(m_)]
            B = [[sym('b%d%d' % (r, c)) for c in range(n_)] for r in range(m_)]
            put(it, 'a', A, m_, m_); put(it, 'b', B, m_, n_); it.alloc('x')
            d = it.run(mod.funcs['@_vnacommon_mldivide'], [Ptr('x', 0), Ptr('a', 0), Ptr('b', 0), m_, n_])
            return A, B, get(it, 'x', m_, n_), d
        if kind == 'mrdivide':      # X(m x n) = B(m x n) A(n x n)^-1
            A = [[sym('a%d%d' % (r, c)) for c in range(n_)] for r in range(n_)]
            B = [[sym('b%d%d' % (r, c)) for c in range(n_)] for r in range(m_)]
            put(it, 'a', A, n_, n_); put(it, 'b', B, m_, n_); it.alloc('x')
            d = it.run(mod.funcs['@_vnacommon_mrdivide'], [Ptr('x', 0), Ptr('b', 0), Ptr('a', 0), m_, n_])
            return A, B, get(it, 'x', m_, n_), d
        if kind == 'minverse':
            A = [[sym('a%d%d' % (r, c)) for c in range(n_)] for r in range(n_)]
            put(it, 'a', A, n_, n_); it.alloc('x')
            d = it.run(mod.funcs['@_vnacommon_minverse'], [Ptr('x', 0), Ptr('a', 0), n_])
            return A, None, get(it, 'x', n_, n_), d
        if kind in ('lu', 'pivot'):
            A = [[sym('a%d%d' % (r, c)) for c in range(n_)] for r in range(n_)]
            put(it, 'a', A, n_, n_); it.alloc('ri')
            d = it.run(mod.funcs['@_vnacommon_lu'], [Ptr('a', 0), Ptr('ri', 0), n_])
            ri = [it.load(Ptr('ri', 4 * i), I32) for i in range(n_)]
            return A, ri, get(it, 'a', n_, n_), d

    try:
        for it, (A, B, X, d) in irsym.explore(mod, setup, max_paths=4096):
            res['paths'] += 1
            path = str(it.taken)
            ex = []
            if kind == 'mldivide':
                for r in range(m_):
                    for c in range(n_):
                        acc = A[r][0] * X[0][c]
                        for k in range(1, m_): acc = acc + A[r][k] * X[k][c]
                        e = acc - B[r][c]; ex += [e.re, e.im]
                what = 'A X = B'
            elif kind == 'mrdivide':
                for r in range(m_):
                    for c in range(n_):
                        acc = X[r][0] * A[0][c]
                        for k in range(1, n_): acc = acc + X[r][k] * A[k][c]
                        e = acc - B[r][c]; ex += [e.re, e.im]
                what = 'X A = B'
            elif kind == 'minverse':
                for r in range(n_):
                    for c in range(n_):
                        acc = A[r][0] * X[0][c]
                        for k in range(1, n_): acc = acc + A[r][k] * X[k][c]
                        e = acc - R.C(Rat.const(1.0 if r == c else 0.0), Rat.const(0.0)); ex += [e.re, e.im]
                what = 'A X = I'
            elif kind == 'lu':
                ri = B
                ok_perm = sorted(ri) == list(range(n_))
                res['queries'] += 1; res['unsat'] += ok_perm
                res['details'].append({'q': 'row_index is a permutation (path %s)' % path, 'verdict': 'unsat' if ok_perm else 'sat', 'model': {'row_index': str(ri)}})
                LU = X
                for r in range(n_):
                    for c in range(n_):
                        acc = None
                        for k in range(min(r, c) + 1):
                            l = LU[r][k] if k < r else R.C(Rat.const(1.0), Rat.const(0.0))
                            u = LU[k][c]
                            t = l * u
                            acc = t if acc is None else acc + t
                        e = acc - A[ri[r]][c]; ex += [e.re, e.im]
                what = 'L U = P A'
            if kind != 'pivot':
                st, mdl = irsym.check_zero(it, ex, timeout_ms=120000)
                res['queries'] += 1; res['unsat'] += st == 'unsat'
                res['details'].append({'q': '%s (pivot path %s)' % (what, path), 'verdict': st, 'model': mdict(mdl)})
                dn = n_ if kind != 'mldivide' else m_
                dd = det(A) if dn <= 3 else None
                if dd is not None:
                    e = R.C(d[0], d[1]) - dd
                    st, mdl = irsym.check_zero(it, [e.re, e.im], timeout_ms=120000)
                    res['queries'] += 1; res['unsat'] += st == 'unsat'
                    res['details'].append({'q': 'returned determinant = det A (pivot path %s)' % path, 'verdict': st, 'model': mdict(mdl)})
            else:
                # scaled partial pivoting in column 0: chosen row p maximises |a_i0| / rowmax_i
                ri = B
                p = ri[0]
                rad = [[A[r][c].re.z3num() * A[r][c].re.z3num() + A[r][c].im.z3num() * A[r][c].im.z3num() for c in range(n_)] for r in range(n_)]
                import itertools
                st = 'unsat'; mdl_ = None
                # case split on which column holds each row's maximum (keeps every z3 query polynomial, no if-then-else)
                for cols in itertools.product(range(n_), repeat=n_):
                    sol = z3.Solver(); sol.set('timeout', 60000)
                    for c_ in it.path: sol.add(c_)
                    for d_ in it.dens: sol.add(d_ != 0)
                    for r in range(n_):
                        for c in range(n_): sol.add(rad[r][cols[r]] >= rad[r][c])
                    bad = [rad[p][0] * rad[q][cols[q]] < rad[q][0] * rad[p][cols[p]] for q in range(n_) if q != p]
                    sol.add(z3.Or(bad))
                    r_ = sol.check()
                    if r_ == z3.sat: st = 'sat'; mdl_ = sol.model(); break
                    if r_ != z3.unsat: st = 'unknown'
                res['queries'] += 1; res['unsat'] += st == 'unsat'
                res['details'].append({'q': 'the pivot chosen in column 0 maximises |a_i0| / max_j |a_ij| (path %s, chosen row %d)' % (path, p),
                                       'verdict': st, 'model': mdict(mdl_) if st == 'sat' else None})
    except RuntimeError as e:
        if 'load of uninitialised' in str(e):
            res['queries'] += 1
            res['details'].append({'q': 'every path writes its result (a path returned without writing the output matrix: %s)' % e, 'verdict': 'sat', 'model': {'unwritten': str(e)}})
        else:
            res['error'] = '%s: %s' % (type(e).__name__, e)
    except Exception as e:
        res['error'] = '%s: %s' % (type(e).__name__, e)
    res['time'] = round(time.time() - t0, 2)
    return res


def unwritten_numeric_replay(ctx, kind):
    """exactly singular input through the REAL compiled kernel with the output pre-filled by a sentinel: is the result left untouched?"""
    import ctypes
    so = os.path.join(ctx.dir, 'lu2.so')
    r = subprocess.run(['gcc', '-w', '-O0', '-shared', '-fPIC', '-DHAVE_CONFIG_H', '-I' + core.REPO, '-I' + core.SRC] +
                       [os.path.join(core.SRC, 'vnacommon_%s.c' % k) for k in ('lu', 'mldivide', 'mrdivide', 'minverse')] + ['-o', so, '-lm'], capture_output=True, text=True)
    if r.returncode != 0: return False, 'native build failed'
    lib = ctypes.CDLL(so)
    class CD(ctypes.Structure): _fields_ = [('re', ctypes.c_double), ('im', ctypes.c_double)]
    X = (ctypes.c_double * 8)(*([12345.0] * 8)); A = (ctypes.c_double * 8)(1, 0, 2, 0, 2, 0, 4, 0); B = (ctypes.c_double * 8)(1, 0, 0, 0, 0, 0, 1, 0)
    if kind == 'minverse':
        lib._vnacommon_minverse.restype = CD; lib._vnacommon_minverse(X, A, 2)
    elif kind == 'mldivide':
        lib._vnacommon_mldivide.restype = CD; lib._vnacommon_mldivide(X, A, B, 2, 2)
    else:
        lib._vnacommon_mrdivide.restype = CD; lib._vnacommon_mrdivide(X, B, A, 2, 2)
    stale = all(X[i] == 12345.0 for i in range(8))
    return stale, 'singular [[1,2],[2,4]]: output buffer %s' % ('left untouched (stale plausible numbers)' if stale else 'overwritten: %s' % [X[i] for i in range(8)])


def pivot_numeric_replay(ctx):
    """badly row-scaled 2x2 system through the REAL compiled _vnacommon_mldivide: accuracy must not depend on row scaling"""
    import ctypes
    so = os.path.join(ctx.dir, 'lu.so')
    r = subprocess.run(['gcc', '-w', '-O0', '-shared', '-fPIC', '-DHAVE_CONFIG_H', '-I' + core.REPO, '-I' + core.SRC,
                        os.path.join(core.SRC, 'vnacommon_lu.c'), os.path.join(core.SRC, 'vnacommon_mldivide.c'), '-o', so, '-lm'],
                       capture_output=True, text=True)
    if r.returncode != 0: return None, 'native build failed: ' + r.stderr[-300:]
    lib = ctypes.CDLL(so)
    f = lib._vnacommon_mldivide
    class CD(ctypes.Structure): _fields_ = [('re', ctypes.c_double), ('im', ctypes.c_double)]
    f.restype = CD
    worst = 0.0; case = None
    for s in (1e17, 1e20, 1e25):
        # rows: [1, s] and [1, 1], b = (s, 2): the exact solution is (1, 1) to within 2/s.  Scaled partial pivoting picks row 1
        # (|1|/s << |1|/1) and is accurate; picking row 0 loses x0 completely.
        A = (ctypes.c_double * 8)(1, 0, s, 0, 1, 0, 1, 0)
        B = (ctypes.c_double * 4)(s, 0, 2, 0)
        X = (ctypes.c_double * 4)()
        f(X, A, B, 2, 1)
        err = max(abs(X[0] - 1.0), abs(X[2] - 1.0))
        if err > worst: worst = err; case = 'A = [[1, %g], [1, 1]], b = A (1,1)^T: computed x = (%.17g, %.17g)' % (s, X[0], X[2])
    return worst, case


def run(tier, only=None):
    t0 = time.time()
    ctx = core.Ctx()
    try:
        files = sorted(g for g in os.listdir(core.SRC) if re.fullmatch(r'vnacommon_(lu|mldivide|mrdivide|minverse)\.c', g))
        ir = build_ir(ctx, files, 'vnacommon')
        jobs = []
        dims = [1, 2] if tier == 'quick' else [1, 2, 3]
        for n in dims:
            jobs.append({'ir': ir, 'kind': 'lu', 'm': n, 'n': n})
            jobs.append({'ir': ir, 'kind': 'minverse', 'm': n, 'n': n})
            for k in ([1, 2] if n < 3 else [1]):
                jobs.append({'ir': ir, 'kind': 'mldivide', 'm': n, 'n': k})
                jobs.append({'ir': ir, 'kind': 'mrdivide', 'm': k, 'n': n})
        jobs.append({'ir': ir, 'kind': 'pivot', 'm': 2, 'n': 2})
        if tier != 'quick': jobs.append({'ir': ir, 'kind': 'pivot', 'm': 3, 'n': 3})
        if only: jobs = [j for j in jobs if only in j['kind']]
        results = run_isolated(_worker, jobs, 8, 600 if tier == 'quick' else 6000)
        nq = sum(r['queries'] for r in results); nu = sum(r['unsat'] for r in results)
        bad = [(r, d) for r in results for d in r['details'] if d['verdict'] == 'sat']
        unk = [(r, d) for r in results for d in r['details'] if d['verdict'] not in ('sat', 'unsat')]
        errs = [r for r in results if 'error' in r]
        known = core.load_known()
        violations = []; notes = []; known_hits = []
        pivot_bad = [(r, d) for r, d in bad if r['kind'] == 'pivot']
        unwritten = [(r, d) for r, d in bad if r['kind'] != 'pivot' and isinstance(d.get('model'), dict) and 'unwritten' in d['model']]
        other_bad = [(r, d) for r, d in bad if r['kind'] != 'pivot' and (r, d) not in unwritten]
        for r, d in unwritten[:1]:
            stale, how = unwritten_numeric_replay(ctx, r['kind'])
            rd = os.path.join(core.VERIF, 'evidence', 'replay', 'C19_unwritten_%s' % r['kind'])
            os.makedirs(rd, exist_ok=True)
            json.dump({'function': r['fn'], 'query': d['q'], 'numeric_replay': how}, open(os.path.join(rd, 'cex.json'), 'w'), indent=1)
            if stale: violations.append((r, d, rd, how))
            else: notes.append('a symbolic path leaves the output unwritten but the native singular case overwrites it: ' + how)
        if pivot_bad:
            worst, case = pivot_numeric_replay(ctx)
            if worst is not None and worst > 1e-6:
                rd = os.path.join(core.VERIF, 'evidence', 'replay', 'C19_pivot_rule')
                os.makedirs(rd, exist_ok=True)
                json.dump({'query': pivot_bad[0][1]['q'], 'z3_model': pivot_bad[0][1]['model'], 'numeric_replay': case, 'abs_error': worst},
                          open(os.path.join(rd, 'cex.json'), 'w'), indent=1)
                k = next((k for k in known.get('open', []) if k['property'] == 'C19' and re.search(k.get('match', 'pivot'), 'pivot')), None)
                if k: known_hits.append((k, case))
                else: violations.append((pivot_bad[0][0], pivot_bad[0][1], rd, 'row-scaled system solved with absolute error %.3g: %s' % (worst, case)))
            else:
                notes.append('pivot rule differs from |a|/rowmax on %d paths, but the numeric replay is accurate (%s)' % (len(pivot_bad), case))
        for r, d in other_bad:
            rd = os.path.join(core.VERIF, 'evidence', 'replay', 'C19_%s_%s' % (r['fn'].replace('[', '_').replace(']', ''), re.sub(r'\W+', '_', d['q'])[:24]))
            os.makedirs(rd, exist_ok=True)
            json.dump({'function': r['fn'], 'query': d['q'], 'z3_model': d['model']}, open(os.path.join(rd, 'cex.json'), 'w'), indent=1)
            violations.append((r, d, rd, 'algebraic counterexample (z3 model recorded)'))
        ev = {'property_id': 'C19', 'tier': tier, 'seed': int(os.environ.get('VERIF_SEED', '0') or 0), 'level': 'proof',
              'coverage': {'obligations': nq, 'discharged': nu,
                           'checker_cmd': 'clang-14 -O0 -emit-llvm vnacommon_{lu,mldivide,mrdivide,minverse}.c | opt -mem2reg | vf/irsym.py (forks on every pivot comparison) | z3 QF_NRA',
                           'trusted_base': ['clang-14 front end', 'vf/irsym.py', 'z3', 'gcc (numeric replay of the pivot rule)'],
                           'functions_encoded': ['_vnacommon_lu', '_vnacommon_mldivide', '_vnacommon_mrdivide', '_vnacommon_minverse'],
                           'bounds': 'n = 1..2 (quick) / 1..3 (thorough), right-hand sides of 1..2 columns/rows, every matrix entry a free complex symbol, EVERY feasible pivot path '
                                     '(comparisons of |.| fork the execution; infeasible branches are pruned by z3)',
                           'outside': 'residual proportional to machine precision for n up to 8 and 40x15 (backward-error statements are not solver-decidable here), QR family, '
                                      'call-site handling of zero determinants (EDOM) - see C20',
                           'pivot_paths': {r['fn']: r.get('paths') for r in results}, 'notes': notes,
                           'solver_time_s': round(sum(r['time'] for r in results), 1),
                           'errors': [{'fn': r['fn'], 'error': r['error']} for r in errs],
                           'unknown': [{'fn': r['fn'], 'q': d['q']} for r, d in unk],
                           'known_findings_seen': [{'what': k['what'], 'how': c} for k, c in known_hits],
                           'explanation': 'exact algebraic identities per pivot path; pivot rule compared with documented scaled partial pivoting and confirmed numerically',
                           'samples': [{'fn': r['fn'], 'paths': r.get('paths'), 'queries': [(d['q'][:70], d['verdict']) for d in r['details'][:6]], 'time_s': r['time']} for r in results[:12]]},
              'assumptions': ['real/complex field arithmetic (no rounding) for C19.a', 'all pivots (divisors) non-zero'],
              'wall_s': round(time.time() - t0, 1), 'violations': len(violations)}
        if violations:
            ev['coverage']['violations'] = [{'fn': r['fn'], 'query': d['q'], 'how': how, 'replay': rd} for r, d, rd, how in violations]
        json.dump(ev, open(os.path.join(core.VERIF, 'evidence', 'C19.json'), 'w'), indent=1)
        for k, c in known_hits: print('KNOWN-FINDING: property=C19 %s [%s]' % (k['what'], c))
        for r in errs: print('ERROR property=C19 function=%s %s' % (r['fn'], r['error']))
        for r, d in unk: print('INCOMPLETE property=C19 function=%s query=%s' % (r['fn'], d['q']))
        for n_ in notes: print('NOTE property=C19 ' + n_)
        for r, d, rd, how in violations:
            print('VIOLATION property=C19 replay=%s' % rd)
            print('  function=%s query=%s (%s)' % (r['fn'], d['q'], how))
        print('C19 %s: %d kernels/shapes, %d queries, %d unsat, %d violations, %d known, %d unknown, %d errors, %.1fs' % (
            tier, len(results), nq, nu, len(violations), len(known_hits), len(unk), len(errs), time.time() - t0))
        if violations: return 1
        if errs or unk or nq == 0: return 2
        return 0
    finally:
        ctx.close()
