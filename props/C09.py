from vf.core import Ob

META = dict(
    level='proof', jobs=8,
    bounds='Touchstone loader on EVERY byte string of length 1..3 (quick) / 4 (thorough), optionally after a concrete prefix ("#", "# HZ ", "[VERSION] 2.0\\n#", ...), '
           'followed by end of file; unwinding assertions prove termination within the bound',
    outside='inputs longer than prefix + 3..4 arbitrary bytes; NPD loader, vnacal_load and YAML import (libyaml is a binary without source: not encodable); '
            're-save of accepted objects',
    assumptions=['getc = next byte then EOF for ever', 'strtod/strtol consume the numeric prefix and return an arbitrary value', 'vasprintf stub', 'ctype = C locale'],
    explanation='bounded symbolic execution of the real _vnadata_load_touchstone over all short byte strings (clang IR -> ll2c -> CBMC)',
)
OVR = ['isascii', 'isdigit', 'isalpha', 'isalnum', 'isspace', 'isupper', 'islower', 'isprint', 'iscntrl', 'toupper', 'tolower', 'strdup', 'vasprintf', 'strtol',
       'getc', 'fgetc', 'strtod']


def obligations(tier):
    obs = []
    pres = ['', '#', '# HZ ', '# S RI R ', '# R 5', '[VERSION] 2.0\\n#', '[VERSION] ', '# HZ S RI R 50\\n',             '[VERSION] 2.0\\n# HZ\\n[NUMBER OF PORTS] 1\\n', '[VERSION] 2.0\\n# HZ\\n[NUMBER OF PORTS] 1\\n[REFERENCE] ', '# HZ S RI R 50\\n!']
    cases = [(p, 1) for p in pres]
    if tier != 'quick':
        cases += [(p, 2) for p in pres[:6]]
    for pre, nb in cases:
        nm = 'ts-%s-plus%d' % (''.join(c if c.isalnum() else '_' for c in pre) or 'empty', nb)
        obs.append(Ob('C09.b/' + nm, 'C09_touchstone.c', engine='L', defs={'NBYTES': nb, 'PREFIX': '"%s"' % pre}, unwind=len(pre.replace('\\n', 'n')) + nb + 12,
                      ovr=OVR, leak=True, timeout=900 if tier == 'quick' else 3000, optional_witnesses=['rejected'],
                      functions=['_vnadata_load_touchstone', 'next_token', 'next_char', 'load_touchstone1'],
                      bounds='prefix %r + %d arbitrary bytes + EOF' % (pre, nb), stubs=['getc buffer', 'strtod/strtol', 'vasprintf', 'ctype'],
                      what='Touchstone loader total on prefix %r + every %d-byte string' % (pre, nb)))
    return obs
