"""C01 (apply side): the linear system vnacal_apply builds from the error terms is the documented M/S matrix equation.
Engine R: vnacal_apply.c + vnacal_layout.c -> clang IR -> vf/irsym.py -> z3.

  C01.c  _vnacal_layout: for every type x dims 1..4 the blocks Ts|Ti|Tx|Tm (Um|Ui|Ux|Us) are contiguous, disjoint, of the documented
         dimensions, leakage terms follow, vl_error_terms is the total (concrete integer code, executed by the interpreter)
  C01.f  fill_t8 / fill_u8 / fill_t16 / fill_u16 / fill_ue14 with symbolic error terms e and measurement M (dims 1..3 square):
         the (A, B) they produce are, cell by cell, the documented equation
             T:  (Ts - M' Tx) S = M' Tm - Ti            =>  A = Ts - M' Tx,   B = M' Tm - Ti        (S = A^-1 B)
             U:  S (Ux M' + Us) = Um M' + Ui            =>  A = Ux M' + Us,   B = Um M' + Ui        (S = B A^-1)
             UE14: per column c:  A[:,c] = Ux_c M'[:,c] + Us_c e_c,  B[:,c] = Um_c M'[:,c] + Ui_c e_c
         with M' = M - El on the off-diagonal cells for TE10 / UE10 / UE14 (row-major off-diagonal order) and diagonal sub-matrices
         expanded for T8/TE10/U8/UE10.  The oracle is written from the comments of vnacal_layout.h, not from the fill code.
  That A^-1 B / B A^-1 is then computed exactly is C19.
"""
import os, sys, re, json, time
sys.path.insert(0, os.path.join(os.path.dirname(os.path.dirname(os.path.abspath(__file__))), 'oracle'))
from vf import core
from props.C04 import build_ir, run_isolated

T8, U8, TE10, UE10, T16, U16, UE14 = 0, 1, 2, 3, 4, 5, 6
NAMES = {0: 'T8', 1: 'U8', 2: 'TE10', 3: 'UE10', 4: 'T16', 5: 'U16', 6: 'UE14', 7: 'E12_UE14', 8: 'E12'}
FILL = {T8: 'fill_t8', TE10: 'fill_t8', U8: 'fill_u8', UE10: 'fill_u8', T16: 'fill_t16', U16: 'fill_u16', UE14: 'fill_ue14'}


def _layout(mod, it, typ, rows, cols):
    from irsym import Ptr
    from irparse import TInt
    it.alloc('vl')
    it.run(mod.funcs['@_vnacal_layout'], [Ptr('vl', 0), typ, rows, cols])
    st = mod.resolve(mod.funcs['@_vnacal_layout'].ftype.args[0].to)
    names = ['type', 'm_rows', 'm_columns', 'ti', 'tx', 'tm', 't_terms', 'el', 'el_terms', 'error_terms']
    vals = {}
    for i, nm in enumerate(names):
        v = it.load(Ptr('vl', mod.field_offset(st, i)), TInt(32))
        vals[nm] = v - (1 << 32) if v >> 31 else v
    return vals


def _worker(job):
    import z3
    from irparse import Module, TFloat
    import irsym
    from irsym import Rat, Ptr, Interp
    import vnaconv_rel as R
    typ, n = job['type'], job['n']
    t0 = time.time()
    mod = Module(open(job['ir']).read())
    res = {'fn': '%s[%dx%d]' % (NAMES[typ], n, n), 'queries': 0, 'unsat': 0, 'details': []}
    D = TFloat('double')
    try:
        it = Interp(mod)
        L = _layout(mod, it, typ, n, n)
        ne = L['error_terms']
        e = [R.C(Rat(z3.Real('e%dr' % i)), Rat(z3.Real('e%di' % i))) for i in range(ne)]
        M = [[R.C(Rat(z3.Real('m%d%dr' % (r, c))), Rat(z3.Real('m%d%di' % (r, c)))) for c in range(n)] for r in range(n)]
        for obj, cnt in (('e', ne), ('m', n * n), ('a', n * n), ('b', n * n)): it.alloc(obj)
        for i in range(ne): it.store(Ptr('e', 16 * i), e[i].re); it.store(Ptr('e', 16 * i + 8), e[i].im)
        for r in range(n):
            for c in range(n):
                it.store(Ptr('m', 16 * (n * r + c)), M[r][c].re); it.store(Ptr('m', 16 * (n * r + c) + 8), M[r][c].im)
        it.run(mod.funcs['@' + FILL[typ]], [Ptr('vl', 0), Ptr('e', 0), Ptr('m', 0), Ptr('a', 0), Ptr('b', 0)])
        A = [[R.C(it.load(Ptr('a', 16 * (n * r + c)), D), it.load(Ptr('a', 16 * (n * r + c) + 8), D)) for c in range(n)] for r in range(n)]
        B = [[R.C(it.load(Ptr('b', 16 * (n * r + c)), D), it.load(Ptr('b', 16 * (n * r + c) + 8), D)) for c in range(n)] for r in range(n)]
        # ---- oracle from vnacal_layout.h
        zero = R.C(Rat.const(0.0), Rat.const(0.0))
        Mp = [[M[r][c] for c in range(n)] for r in range(n)]
        if typ in (TE10, UE10, UE14):
            k = L['el']
            for r in range(n):
                for c in range(n):
                    if r != c: Mp[r][c] = M[r][c] - e[k]; k += 1
        def block(off, full):          # n x n sub-matrix: full (row-major) or diagonal
            if full: return [[e[off + n * r + c] for c in range(n)] for r in range(n)]
            return [[e[off + r] if r == c else zero for c in range(n)] for r in range(n)]
        def mul(X, Y):
            out = [[None] * n for _ in range(n)]
            for r in range(n):
                for c in range(n):
                    acc = X[r][0] * Y[0][c]
                    for k in range(1, n): acc = acc + X[r][k] * Y[k][c]
                    out[r][c] = acc
            return out
        def sub(X, Y): return [[X[r][c] - Y[r][c] for c in range(n)] for r in range(n)]
        def add(X, Y): return [[X[r][c] + Y[r][c] for c in range(n)] for r in range(n)]
        if typ in (T8, TE10, T16):
            full = typ == T16
            Ts, Ti, Tx, Tm = block(0, full), block(L['ti'], full), block(L['tx'], full), block(L['tm'], full)
            Ad = sub(Ts, mul(Mp, Tx)); Bd = sub(mul(Mp, Tm), Ti)
        elif typ in (U8, UE10, U16):
            full = typ == U16
            Um, Ui, Ux, Us = block(0, full), block(L['ti'], full), block(L['tx'], full), block(L['tm'], full)
            Ad = add(mul(Ux, Mp), Us); Bd = add(mul(Um, Mp), Ui)
        else:   # UE14: column systems, u_terms per column
            ut = L['t_terms']
            Ad = [[None] * n for _ in range(n)]; Bd = [[None] * n for _ in range(n)]
            for c in range(n):
                um = [e[c * ut + r] for r in range(n)]; ui = e[c * ut + L['ti']]
                ux = [e[c * ut + L['tx'] + r] for r in range(n)]; us = e[c * ut + L['tm']]
                for r in range(n):
                    Ad[r][c] = ux[r] * Mp[r][c] + (us if r == c else zero)
                    Bd[r][c] = um[r] * Mp[r][c] + (ui if r == c else zero)
        ex = []
        for r in range(n):
            for c in range(n):
                d1 = A[r][c] - Ad[r][c]; d2 = B[r][c] - Bd[r][c]
                ex += [d1.re, d1.im, d2.re, d2.im]
        st, mdl = irsym.check_zero(it, ex)
        res['queries'] += 1; res['unsat'] += st == 'unsat'
        md = None
        if mdl is not None and not isinstance(mdl, str):
            md = {d.name(): str(mdl[d]) for d in mdl.decls()}
        res['details'].append({'q': '(A, B) built by %s equal the documented equation cell by cell' % FILL[typ], 'verdict': st, 'model': md})
        res['layout'] = L; res['steps'] = it.steps
    except Exception as ex_:
        res['error'] = '%s: %s' % (type(ex_).__name__, ex_)
    res['time'] = round(time.time() - t0, 2)
    return res


def _layout_worker(job):
    from irparse import Module
    from irsym import Interp
    mod = Module(open(job['ir']).read())
    res = {'fn': 'layout', 'queries': 0, 'unsat': 0, 'details': []}
    t0 = time.time()
    try:
        for typ in range(0, 9):
            for rows in range(1, 5):
                for cols in range(1, 5):
                    it = Interp(mod)
                    L = _layout(mod, it, typ, rows, cols)
                    ports = max(rows, cols); diag = min(rows, cols)
                    ok = True; why = ''
                    if typ in (T16, U16):
                        exp = [rows * ports, rows * ports + rows * ports, rows * ports * 2 + cols * ports, rows * ports * 2 + cols * ports * 2]
                        if typ == U16: exp = [ports * rows, ports * rows + ports * cols, ports * rows + ports * cols + ports * rows, 2 * ports * rows + 2 * ports * cols]
                        ok = [L['ti'], L['tx'], L['tm'], L['t_terms']] == exp and L['el_terms'] == 0 and L['error_terms'] == exp[3]
                    elif typ in (T8, TE10, U8, UE10):
                        ok = 0 < L['ti'] <= L['tx'] <= L['tm'] <= L['t_terms'] and L['el'] == L['t_terms'] and \
                            L['el_terms'] == (rows * cols - diag if typ in (TE10, UE10) else 0) and L['error_terms'] == L['t_terms'] + L['el_terms'] and \
                            L['t_terms'] == min(rows, ports) + min(rows, ports) + min(cols, ports) + min(cols, ports)
                    elif typ in (UE14, 7):
                        ok = L['el'] == cols * L['t_terms'] and L['el_terms'] == rows * cols - diag and L['error_terms'] == L['el'] + L['el_terms'] and \
                            L['t_terms'] == 2 * min(ports, rows) + 2 and L['ti'] == min(ports, rows) and L['tx'] == L['ti'] + 1 and L['tm'] == L['tx'] + min(ports, rows)
                    else:   # E12: per column el(rows) er(rows) em(rows)
                        ok = L['error_terms'] == cols * 3 * rows and L['el'] == 0 and L['ti'] == rows and L['tm'] == 2 * rows
                    ok = ok and L['m_rows'] == rows and L['m_columns'] == cols and L['type'] == typ
                    res['queries'] += 1; res['unsat'] += bool(ok)
                    if not ok: res['details'].append({'q': 'layout %s %dx%d' % (NAMES[typ], rows, cols), 'verdict': 'sat', 'model': L})
        res['details'].append({'q': 'layout blocks contiguous / disjoint / documented sizes for 9 types x 16 shapes', 'verdict': 'unsat' if res['queries'] == res['unsat'] else 'sat', 'model': None})
    except Exception as e:
        res['error'] = '%s: %s' % (type(e).__name__, e)
    res['time'] = round(time.time() - t0, 2)
    return res


def run(tier, only=None):
    t0 = time.time()
    ctx = core.Ctx()
    try:
        ir = build_ir(ctx, ['vnacal_apply.c', 'vnacal_layout.c'], 'apply')
        jobs = [{'ir': ir, 'type': t, 'n': n} for t in (T8, U8, TE10, UE10, T16, U16, UE14) for n in ((1, 2) if tier == 'quick' else (1, 2, 3))]
        if only: jobs = [j for j in jobs if only in NAMES[j['type']]]
        results = run_isolated(_worker, jobs, 8, 600 if tier == 'quick' else 3000)
        results += run_isolated(_layout_worker, [{'ir': ir, 'kind': 'layout', 'fn': 'layout'}], 1, 600)
        nq = sum(r['queries'] for r in results); nu = sum(r['unsat'] for r in results)
        bad = [(r, d) for r in results for d in r['details'] if d['verdict'] == 'sat']
        unk = [(r, d) for r in results for d in r['details'] if d['verdict'] not in ('sat', 'unsat')]
        errs = [r for r in results if 'error' in r]
        viol = []
        for r, d in bad:
            rd = os.path.join(core.VERIF, 'evidence', 'replay', 'C01_%s' % re.sub(r'\W+', '_', r['fn']))
            os.makedirs(rd, exist_ok=True)
            json.dump({'function': r['fn'], 'query': d['q'], 'z3_model': d['model']}, open(os.path.join(rd, 'cex.json'), 'w'), indent=1)
            viol.append((r, d, rd))
        ev = {'property_id': 'C01', 'tier': tier, 'seed': int(os.environ.get('VERIF_SEED', '0') or 0), 'level': 'proof',
              'coverage': {'obligations': nq, 'discharged': nu,
                           'checker_cmd': 'clang-14 -O0 -emit-llvm vnacal_apply.c vnacal_layout.c | opt -mem2reg | vf/irsym.py | z3 QF_NRA',
                           'trusted_base': ['clang-14 front end', 'vf/irsym.py', 'z3', 'oracle written from the comments of vnacal_layout.h'],
                           'functions_encoded': ['_vnacal_layout', 'fill_t8', 'fill_u8', 'fill_t16', 'fill_u16', 'fill_ue14'],
                           'bounds': 'error-term types T8 U8 TE10 UE10 T16 U16 UE14, square dims 1..2 (quick) / 1..3 (thorough), every error term and measurement cell a free complex symbol; layout for 9 type codes x dims 1..4 x 1..4',
                           'outside': 'the calibrate side of C01 (cell mapping, term expansion, assembly, solve: designed as C01.a/b/d/e, not built), E12 and the 1x2 / 2x1 special cases of apply, '
                                      'interpolation of error terms between calibration frequencies (C10), rounding, dimension 4',
                           'solver_time_s': round(sum(r['time'] for r in results), 1),
                           'errors': [{'fn': r['fn'], 'error': r['error']} for r in errs], 'unknown': [{'fn': r['fn'], 'q': d['q']} for r, d in unk],
                           'explanation': 'polynomial identity between the linear system apply builds and the documented M/S equation, decided by z3 with M and all error terms free',
                           'samples': [{'fn': r['fn'], 'queries': [(d['q'][:80], d['verdict']) for d in r['details'][:3]], 'layout': r.get('layout'), 'time_s': r['time']} for r in results[:16]]},
              'assumptions': ['exact complex-field arithmetic'], 'wall_s': round(time.time() - t0, 1), 'violations': len(viol)}
        if viol: ev['coverage']['violations'] = [{'fn': r['fn'], 'query': d['q'], 'model': d['model'], 'replay': rd} for r, d, rd in viol]
        json.dump(ev, open(os.path.join(core.VERIF, 'evidence', 'C01.json'), 'w'), indent=1)
        for r in errs: print('ERROR property=C01 function=%s %s' % (r['fn'], r['error']))
        for r, d in unk: print('INCOMPLETE property=C01 function=%s query=%s' % (r['fn'], d['q']))
        for r, d, rd in viol:
            print('VIOLATION property=C01 replay=%s' % rd); print('  function=%s query=%s model=%s' % (r['fn'], d['q'], str(d['model'])[:300]))
        print('C01 %s: %d units, %d queries, %d discharged, %d violations, %d unknown, %d errors, %.1fs' % (tier, len(results), nq, nu, len(viol), len(unk), len(errs), time.time() - t0))
        if viol: return 1
        if errs or unk or nq == 0: return 2
        return 0
    finally:
        ctx.close()
