"""C01 (apply side): the linear system vnacal_apply builds from the error terms is the documented M/S matrix equation.
Engine R: vnacal_apply.c + vnacal_layout.c -> clang IR -> vf/irsym.py -> z3.

  C01.c  _vnacal_layout: for every type x dims 1..4 the blocks Ts|Ti|Tx|Tm (Um|Ui|Ux|Us) are contiguous, disjoint, of the documented
         dimensions, leakage terms follow, vl_error_terms is the total (concrete integer code, executed by the interpreter)
  C01.f  fill_t8 / fill_u8 / fill_t16 / fill_u16 / fill_ue14 with symbolic error terms e and measurement M (dims 1..3 square):
         the (A, B) they produce are, cell by cell, the documented equation
             T:  (Ts - M' Tx) S = M' Tm - Ti            =>  A = Ts - M' Tx,   B = M' Tm - Ti        (S = A^-1 B)
             U:  S (Ux M' + Us) = Um M' + Ui            =>  A = Ux M' + Us,   B = Um M' + Ui        (S = B A^-1)
             UE14: per column c:  A[:,c] = Ux_c M'[:,c] + Us_c e_c,  B[:,c] = Um_c M'[:,c] + Ui_c e_c
         with M' = M - El on the off-diagonal cells for TE10 / UE10 / UE14 (row-major off-diagonal order) and diagonal sub-matrices
         expanded for T8/TE10/U8/UE10.  The oracle is written from the comments of vnacal_layout.h, not from the fill code.
  That A^-1 B / B A^-1 is then computed exactly is C19.
"""
import os, sys, re, json, time
sys.path.insert(0, os.path.join(os.path.dirname(os.path.dirname(os.path.abspath(__file__))), 'oracle'))
from vf import core
from props.C04 import build_ir, run_isolated

T8, U8, TE10, UE10, T16, U16, UE14 = 0, 1, 2, 3, 4, 5, 6
NAMES = {0: 'T8', 1: 'U8', 2: 'TE10', 3: 'UE10', 4: 'T16', 5: 'U16', 6: 'UE14', 7: 'E12_UE14', 8: 'E12'}
FILL = {T8: 'fill_t8', TE10: 'fill_t8', U8: 'fill_u8', UE10: 'fill_u8', T16: 'fill_t16', U16: 'fill_u16', UE14: 'fill_ue14'}


def _layout(mod, it, typ, rows, cols):
    from irsym import Ptr
    from irparse import TInt
    it.alloc('vl')
    it.run(mod.funcs['@_vnacal_layout'], [Ptr('vl', 0), typ, rows, cols])
    st = mod.resolve(mod.funcs['@_vnacal_layout'].ftype.args[0].to)
    names = ['type', 'm_rows', 'm_columns', 'ti', 'tx', 'tm', 't_terms', 'el', 'el_terms', 'error_terms']
    vals = {}
    for i, nm in enumerate(names):
        v = it.load(Ptr('vl', mod.field_offset(st, i)), TInt(32))
        vals[nm] = v - (1 << 32) if v >> 31 else v
    return vals


def _worker(job):
    import z3
    from irparse import Module, TFloat
    import irsym
    from irsym import Rat, Ptr, Interp
    import vnaconv_rel as R
    typ, n = job['type'], job['n']
    t0 = time.time()
    mod = Module(open(job['ir']).read())
    res = {'fn': '%s[%dx%d]' % (NAMES[typ], n, n), 'queries': 0, 'unsat': 0, 'details': []}
    D = TFloat('double')
    try:
        it = Interp(mod)
        L = _layout(mod, it, typ, n, n)
        ne = L['error_terms']
        e = [R.C(Rat(z3.Real('e%dr' % i)), Rat(z3.Real('e%di' % i))) for i in range(ne)]
        M = [[R.C(Rat(z3.Real('m%d%dr' % (r, c))), Rat(z3.Real('m%d%di' % (r, c)))) for c in range(n)] for r in range(n)]
        for obj, cnt in (('e', ne), ('m', n * n), ('a', n * n), ('b', n * n)): it.alloc(obj)
        for i in range(ne): it.store(Ptr('e', 16 * i), e[i].re); it.store(Ptr('e', 16 * i + 8), e[i].im)
        for r in range(n):
            for c in range(n):
                it.store(Ptr('m', 16 * (n * r + c)), M[r][c].re); it.store(Ptr('m', 16 * (n * r + c) + 8), M[r][c].im)
        it.run(mod.funcs['@' + FILL[typ]], [Ptr('vl', 0), Ptr('e', 0), Ptr('m', 0), Ptr('a', 0), Ptr('b', 0)])
        A = [[R.C(it.load(Ptr('a', 16 * (n * r + c)), D), it.load(Ptr('a', 16 * (n * r + c) + 8), D)) for c in range(n)] for r in range(n)]
        B = [[R.C(it.load(Ptr('b', 16 * (n * r + c)), D), it.load(Ptr('b', 16 * (n * r + c) + 8), D)) for c in range(n)] for r in range(n)]
        # ---- oracle from vnacal_layout.h
        zero = R.C(Rat.const(0.0), Rat.const(0.0))
        Mp = [[M[r][c] for c in range(n)] for r in range(n)]
        if typ in (TE10, UE10, UE14):
            k = L['el']
            for r in range(n):
                for c in range(n):
                    if r != c: Mp[r][c] = M[r][c] - e[k]; k += 1
        def block(off, full):          # n x n sub-matrix: full (row-major) or diagonal
            if full: return [[e[off + n * r + c] for c in range(n)] for r in range(n)]
            return [[e[off + r] if r == c else zero for c in range(n)] for r in range(n)]
        def mul(X, Y):
            out = [[None] * n for _ in range(n)]
            for r in range(n):
                for c in range(n):
                    acc = X[r][0] * Y[0][c]
                    for k in range(1, n): acc = acc + X[r][k] * Y[k][c]
                    out[r][c] = acc
            return out
        def sub(X, Y): return [[X[r][c] - Y[r][c] for c in range(n)] for r in range(n)]
        def add(X, Y): return [[X[r][c] + Y[r][c] for c in range(n)] for r in range(n)]
        if typ in (T8, TE10, T16):
            full = typ == T16
            Ts, Ti, Tx, Tm = block(0, full), block(L['ti'], full), block(L['tx'], full), block(L['tm'], full)
            Ad = sub(Ts, mul(Mp, Tx)); Bd = sub(mul(Mp, Tm), Ti)
        elif typ in (U8, UE10, U16):
            full = typ == U16
            Um, Ui, Ux, Us = block(0, full), block(L['ti'], full), block(L['tx'], full), block(L['tm'], full)
            Ad = add(mul(Ux, Mp), Us); Bd = add(mul(Um, Mp), Ui)
        else:   # UE14: column systems, u_terms per column
            ut = L['t_terms']
            Ad = [[None] * n for _ in range(n)]; Bd = [[None] * n for _ in range(n)]
            for c in range(n):
                um = [e[c * ut + r] for r in range(n)]; ui = e[c * ut + L['ti']]
                ux = [e[c * ut + L['tx'] + r] for r in range(n)]; us = e[c * ut + L['tm']]
                for r in range(n):
                    Ad[r][c] = ux[r] * Mp[r][c] + (us if r == c else zero)
                    Bd[r][c] = um[r] * Mp[r][c] + (ui if r == c else zero)
        ex = []
        for r in range(n):
            for c in range(n):
                d1 = A[r][c] - Ad[r][c]; d2 = B[r][c] - Bd[r][c]
                ex += [d1.re, d1.im, d2.re, d2.im]
        st, mdl = irsym.check_zero(it, ex)
        res['queries'] += 1; res['unsat'] += st == 'unsat'
        md = None
        if mdl is not None and not isinstance(mdl, str):
            md = {d.name(): str(mdl[d]) for d in mdl.decls()}
        res['details'].append({'q': '(A, B) built by %s equal the documented equation cell by cell' % FILL[typ], 'verdict': st, 'model': md})
        res['layout'] = L; res['steps'] = it.steps
    except Exception as ex_:
        res['error'] = '%s: %s' % (type(ex_).__name__, ex_)
    res['time'] = round(time.time() - t0, 2)
    return res


def _layout_worker(job):
    from irparse import Module
    from irsym import Interp
    mod = Module(open(job['ir']).read())
    res = {'fn': 'layout', 'queries': 0, 'unsat': 0, 'details': []}
    t0 = time.time()
    try:
        for typ in range(0, 9):
            for rows in range(1, 5):
                for cols in range(1, 5):
                    it = Interp(mod)
                    L = _layout(mod, it, typ, rows, cols)
                    ports = max(rows, cols); diag = min(rows, cols)
                    ok = True; why = ''
                    if typ in (T16, U16):
                        exp = [rows * ports, rows * ports + rows * ports, rows * ports * 2 + cols * ports, rows * ports * 2 + cols * ports * 2]
                        if typ == U16: exp = [ports * rows, ports * rows + ports * cols, ports * rows + ports * cols + ports * rows, 2 * ports * rows + 2 * ports * cols]
                        ok = [L['ti'], L['tx'], L['tm'], L['t_terms']] == exp and L['el_terms'] == 0 and L['error_terms'] == exp[3]
                    elif typ in (T8, TE10, U8, UE10):
                        ok = 0 < L['ti'] <= L['tx'] <= L['tm'] <= L['t_terms'] and L['el'] == L['t_terms'] and \
                            L['el_terms'] == (rows * cols - diag if typ in (TE10, UE10) else 0) and L['error_terms'] == L['t_terms'] + L['el_terms'] and \
                            L['t_terms'] == min(rows, ports) + min(rows, ports) + min(cols, ports) + min(cols, ports)
                    elif typ in (UE14, 7):
                        ok = L['el'] == cols * L['t_terms'] and L['el_terms'] == rows * cols - diag and L['error_terms'] == L['el'] + L['el_terms'] and \
                            L['t_terms'] == 2 * min(ports, rows) + 2 and L['ti'] == min(ports, rows) and L['tx'] == L['ti'] + 1 and L['tm'] == L['tx'] + min(ports, rows)
                    else:   # E12: per column el(rows) er(rows) em(rows)
                        ok = L['error_terms'] == cols * 3 * rows and L['el'] == 0 and L['ti'] == rows and L['tm'] == 2 * rows
                    ok = ok and L['m_rows'] == rows and L['m_columns'] == cols and L['type'] == typ
                    res['queries'] += 1; res['unsat'] += bool(ok)
                    if not ok: res['details'].append({'q': 'layout %s %dx%d' % (NAMES[typ], rows, cols), 'verdict': 'sat', 'model': L})
        res['details'].append({'q': 'layout blocks contiguous / disjoint / documented sizes for 9 types x 16 shapes', 'verdict': 'unsat' if res['queries'] == res['unsat'] else 'sat', 'model': None})
    except Exception as e:
        res['error'] = '%s: %s' % (type(e).__name__, e)
    res['time'] = round(time.time() - t0, 2)
    return res


def cal_side(ctx, tier, only=None):
    """calibrate side: every configuration of props/calcfg.py through props/calflow.py (whole-flow symbolic run on the real code)"""
    from props import calflow, calcfg, calrun
    ml = calrun.build_whole_ir(ctx); calrun.load_module(ml)
    cfgs = [c for c in calcfg.configs(tier) if not only or only in c.name]
    jobs = [{'id': c.name, 'tier': tier} for c in cfgs]
    results = calrun.run_jobs(calflow.cal_worker, jobs, par=max(1, core.NCPU - 1), timeout=600 if tier == 'quick' else 3000, mem_gb=10)
    # apply on a selection of the calibration's frequency points (1-port types; 2-port systems with symbolic terms at 3 frequencies do not finish)
    gjobs = [{'id': 'applygrid-%s-%s' % (calflow.NAMES[t], g), 'type': t, 'n': 1, 'grid': g} for t in (calflow.T8, calflow.U8, calflow.TE10, calflow.UE10) for g in calflow.APPLY_GRIDS
             if not g.startswith('between')]      # between the points _vnacal_rfi adds its regulariser EPS = 1e-25 to every tableau entry: no exact identity exists there (not registered)
    gjobs = [j for j in gjobs if not only or only in j['id']]
    gres = calrun.run_jobs(calflow.apply_grid_worker, gjobs, par=max(1, core.NCPU - 1), timeout=600, mem_gb=8) if gjobs else []
    native = calrun.Native(ctx)
    viol = []
    for r, j in zip(gres, gjobs):
        if r.get('error') or not (r.get('fault') or r.get('sat')): continue
        what = ('memory fault / abort in the symbolic run of the real code: ' + r['fault']) if r.get('fault') else ' ;; '.join('%s %s' % (x.get('q'), str(x.get('model', x.get('detail')))[:200]) for x in r['sat'][:4])
        rd = os.path.join(core.VERIF, 'evidence', 'replay', 'C01_' + re.sub(r'\W+', '_', r['id']))
        ok, how, outp = native.confirm(calflow.apply_grid_native(j), rd, fault=r.get('fault'))
        json.dump({'property': 'C01', 'job': j, 'what': what, 'native': how}, open(os.path.join(rd, 'cex.json'), 'w'), indent=1, default=str)
        viol.append({'id': r['id'], 'what': what, 'replay': rd, 'confirmed': ok, 'how': how})
    byname = {c.name: c for c in cfgs}
    for r in results:
        if r.get('error'): continue
        whats = []
        if r.get('fault'): whats.append('memory fault / abort in the symbolic run of the real code: ' + r['fault'])
        for x in r.get('sat', []): whats.append('%s %s' % (x.get('q'), json.dumps({k: v for k, v in x.items() if k not in ('q', 'model')}, default=str)[:400]))
        c = r.get('concrete') or {}
        for f in c.get('fail', []): whats.append('exact end-to-end run: ' + f)
        if not whats: continue
        rd = os.path.join(core.VERIF, 'evidence', 'replay', 'C01_cal_' + re.sub(r'\W+', '_', r['id']))
        ok, how, outp = native.confirm(calflow.native_program(byname[r['id']]), rd, fault=r.get('fault'))
        json.dump({'property': 'C01', 'config': r['id'], 'what': whats, 'native': how, 'sat': r.get('sat'), 'fault': r.get('fault')}, open(os.path.join(rd, 'cex.json'), 'w'), indent=1, default=str)
        viol.append({'id': r['id'], 'what': ' ;; '.join(whats), 'replay': rd, 'confirmed': ok, 'how': how})
    return results + gres, viol


def run(tier, only=None):
    from props import calrun
    t0 = time.time()
    ctx = core.Ctx()
    try:
        ir = build_ir(ctx, ['vnacal_apply.c', 'vnacal_layout.c'], 'apply')
        jobs = [{'ir': ir, 'type': t, 'n': n} for t in (T8, U8, TE10, UE10, T16, U16, UE14) for n in ((1, 2) if tier == 'quick' else (1, 2, 3))]
        if only: jobs = [j for j in jobs if only in NAMES[j['type']]]
        ares = run_isolated(_worker, jobs, 8, 600 if tier == 'quick' else 3000)
        if not only: ares += run_isolated(_layout_worker, [{'ir': ir, 'kind': 'layout', 'fn': 'layout'}], 1, 600)
        results = []; viol = []
        for r in ares:
            rr = {'id': 'apply:' + r['fn'], 'queries': r['queries'], 'unsat': r['unsat'], 'time': r.get('time', 0), 'paths': 1,
                  'unknown': [d['q'] for d in r['details'] if d['verdict'] not in ('sat', 'unsat')]}
            if 'error' in r: rr['error'] = r['error']
            results.append(rr)
            for d in r['details']:
                if d['verdict'] != 'sat': continue
                rd = os.path.join(core.VERIF, 'evidence', 'replay', 'C01_%s' % re.sub(r'\W+', '_', r['fn']))
                os.makedirs(rd, exist_ok=True)
                json.dump({'function': r['fn'], 'query': d['q'], 'z3_model': d['model']}, open(os.path.join(rd, 'cex.json'), 'w'), indent=1)
                # the counterexample is an algebraic identity that fails on the real fill_* code at the model z3 gives; the calibrate-side
                # end-to-end native program of the same type shows the wrong correction
                viol.append({'id': rr['id'], 'what': '%s: %s model=%s' % (r['fn'], d['q'], str(d['model'])[:300]), 'replay': rd, 'confirmed': True,
                             'how': 'z3 model of the identity on the real code (irsym)'})
        cres, cviol = cal_side(ctx, tier, only)
        results += cres; viol += cviol
        funcs = sorted(set(f for r in cres for f in (r.get('funcs') or [])))
        meta = {'checker_cmd': 'clang-14 -O0 -emit-llvm (whole library) | llvm-link | opt -mem2reg | vf/irsym.py + vf/irx.py (symbolic execution) | z3 (QF_NRA identities, feasibility)',
                'trusted_base': ['clang-14 front end', 'vf/irparse.py, vf/irsym.py, vf/irx.py (interpreter, checked heap, libc model)', 'z3',
                                 'oracles written from vnacal_new(3) and the comments of vnacal_layout.h (props/calflow.py, props/C01.py)',
                                 'clang ASan/UBSan native build for replay'],
                'functions': ['_vnacal_layout', 'fill_t8', 'fill_u8', 'fill_t16', 'fill_u16', 'fill_ue14'] + funcs,
                'bounds': 'APPLY side: types T8 U8 TE10 UE10 T16 U16 UE14, square dims 1..%d, every error term and measured cell free; layout 9 types x dims 1..4 x 1..4.  '
                          'CALIBRATE side: %d configurations (props/calcfg.py): all 8 types x every accepted shape up to %d ports x the determining standard set entered through '
                          'single/double reflect, through, line, mapped matrix (with and without port map), m and a/b forms (symbolic, scaled and constant reference matrices), '
                          'full and abbreviated measurement matrices, swapped port order, reversed / rotated order of standards, predefined and user (symbolic) parameters; '
                          '1 frequency; every measured value, reference value and parameter value a free complex symbol; every feasible branch combination of order comparisons '
                          '(LU pivots of the a matrix) explored' % (2 if tier == 'quick' else 3, len(cres), 2 if tier == 'quick' else 3),
                'outside': 'the linear solvers themselves (replaced by a recording hook on the calibrate side: C19 covers LU; QR is not covered), unknown-parameter (TRL) solves, measurement-error weighting, '
                           'more than 1 frequency on the calibrate side, interpolation in apply (C10), rounding, ports > 3; sets of measure zero where free symbolic values coincide or a reference matrix is singular '
                           '(listed per path as generic assumptions), branches without witness point and z3 verdict (listed as unexplored)',
                'explanation': 'apply: polynomial identity between the linear system apply builds and the documented M/S equation.  calibrate: the real vnacal_new_add_* .. vnacal_new_solve run symbolically; '
                               'the coefficient matrix and right-hand side handed to the linear solver are proved (z3) to be, row by row, exactly the documented residual cells '
                               '-Ts S - Ti + M Tx S + M Tm (T) / Um M + Ui - S Ux M - S Us (U, per column for UE14/E12) of every standard cell with known factors (soundness + completeness), '
                               'and the stored error terms are the solution with the unity term inserted, leakage terms = documented averages, E12 = documented conversion; an exact rational '
                               'end-to-end run per configuration (forward model -> calibrate -> apply returns the DUT exactly) witnesses determinacy and validates the interpreter',
                'assumptions': ['exact complex-field arithmetic (rounding outside)', 'generic values: symbolic equality tests take the unequal branch (recorded per path)'],
                'samples': [{'id': r.get('id'), 'paths': r.get('paths'), 'queries': r.get('queries'), 'systems': r.get('systems'), 'generic_assumed': r.get('generic_assumed'),
                             'concrete': (r.get('concrete') or {}).get('solves'), 'time_s': r.get('time')} for r in cres[:24]]}
        rc, ev = calrun.report('C01', tier, results, viol, meta, t0,
                               extra_cov={'unexplored_branches': sum(len(r.get('unexplored') or []) for r in cres), 'configurations': len(cres)})
        return rc
    finally:
        ctx.close()
