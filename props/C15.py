from vf.core import Ob

VNADATA_FUNCS = ['vnadata_alloc', 'vnadata_init', 'vnadata_resize', 'vnadata_set_type', 'vnadata_free', '_vnadata_extend_p',
                 '_vnadata_extend_m', '_vnadata_extend_f', 'vnadata_get_cell', 'vnadata_set_cell', 'vnadata_get_frequency',
                 'vnadata_set_frequency', 'vnadata_get_z0', 'vnadata_set_z0', 'vnadata_set_all_z0', 'vnadata_set_z0_vector',
                 'vnadata_get_fz0', 'vnadata_set_fz0', 'vnadata_set_fz0_vector', 'vnadata_set_matrix', 'vnadata_set_from_vector',
                 '_vnadata_convert_to_z0', '_vnadata_convert_to_fz0', 'vnadata_has_fz0', '_vnadata_bounds_error', '_vnaerr_verror']

META = dict(
    level='proof',
    bounds='dimensions 0..2, frequencies 0..2; operation histories (plans) of 2..4 operations from vnadata_alloc; the operation KINDS and the '
           'arguments of shape-changing operations (type, rows, columns, frequencies of init/resize) are enumerated (allocation sizes must be '
           'concrete for CBMC); every index, port, frequency index (-1..n+1), parameter type for set_type (-1..11) and every cell / frequency / '
           'impedance value (arbitrary non-NaN double) is symbolic and quantified by the solver; the final observation index is symbolic too',
    outside='dimensions > 2 (3 in thorough for a few plans), histories not in the enumerated plan families, vnadata_add_frequency growth '
            '(separate obligation), vnadata_convert interleaving (C05), NaN payload identity',
    assumptions=['allocation never fails (C12 covers failure)', 'vasprintf stub returns a fresh 3-byte string',
                 'cell values are not NaN (only compared, never computed with)'],
    explanation='bounded symbolic refinement check of the real vnadata code (clang IR -> ll2c -> CBMC) against an abstract array model',
)

U, S, ZIN = 0, 1, 10
OPN = {1: 'resize', 2: 'init', 3: 'set_type', 4: 'set_cell', 5: 'set_frequency', 6: 'set_z0', 7: 'set_all_z0', 8: 'set_fz0',
       9: 'set_z0_vector', 10: 'set_fz0_vector', 11: 'set_matrix', 12: 'set_from_vector'}


def ty(r, c):
    return S if r == c else U


def shape_op(op, shp, t=None):
    r, c, f = shp
    return (op, ty(r, c) if t is None else t, r, c, f)


def type_ok(t, r, c):
    if t == 0: return True
    if t in (1, 4, 5): return r == c
    if t in (2, 3, 6, 7, 8, 9): return r == 2 and c == 2
    if t == 10: return r == 1
    return False


def plan_ob(steps, maxd=2, maxf=2, timeout=None):
    name = '-'.join('%s%s' % (OPN[s[0]], ('%d%d%dt%d' % (s[2], s[3], s[4], s[1])) if s[0] in (1, 2) else '') for s in steps)
    # which vacuity witnesses can this plan reach at all?
    r = c = f = 0; can_refuse = False
    for st in steps:
        if st[0] in (1, 2):
            if st[0] == 2: r = c = f = 0
            if type_ok(st[1], st[2], st[3]): r, c, f = st[2], st[3], st[4]
            else: can_refuse = True
        elif st[0] in (3, 4, 5, 6, 8, 10, 11, 12): can_refuse = True
    opt = []
    if not can_refuse: opt.append('refused call')
    if r * c * f == 0: opt.append('in-range cell')
    if max(r, c) == 0: opt.append('in-range z0')
    if max(r, c) * f == 0: opt.append('in-range fz0')
    p = '{' + ','.join('{%d,%d,%d,%d,%d}' % s for s in steps) + '}'
    unwind = 2 * maxd * maxd + 1
    return Ob('C15.a/' + name, 'C15_hist.c', engine='L', defs={'DEPTH': len(steps), 'MAXD': maxd, 'MAXF': maxf, 'PLAN': p},
              unwind=unwind, ovr=['vasprintf'], leak=True,
              optional_witnesses=opt, functions=VNADATA_FUNCS, timeout=timeout,
              bounds='plan %s MAXD=%d MAXF=%d unwind=%d' % (name, maxd, maxf, unwind), stubs=['vasprintf (fresh 3-byte string)'],
              what='history %s with symbolic indices/values, then every getter at a symbolic index agrees with the abstract array model' % name)


def setter(k):
    return (k, 0, 0, 0, 0)


def obligations(tier):
    obs = []
    if tier == 'quick':
        shapesA = [(2, 2, 2), (1, 2, 1), (2, 1, 2), (0, 0, 0), (2, 2, 0)]
        mids = [(1, 1, 1), (2, 1, 2)]
    else:
        shapesA = [(r, c, f) for r in range(3) for c in range(3) for f in range(3)]
        mids = [(1, 1, 1), (2, 2, 1), (1, 2, 2), (0, 0, 0), (2, 1, 2), (1, 1, 2), (2, 2, 0)]
    # F1: init(A); one setter of every kind
    for A in shapesA:
        for k in range(3, 13):
            obs.append(plan_ob([shape_op(2, A), setter(k)]))
    # F2: init(2,2,2); setter; shrink to B; regrow  (newly exposed cells must show initial values)
    for k in (4, 5, 6, 8, 10, 11):
        for B in mids:
            obs.append(plan_ob([shape_op(2, (2, 2, 2)), setter(k), shape_op(1, B), shape_op(1, (2, 2, 2))]))
    # F3: mode switches around resizes
    for B in mids:
        obs.append(plan_ob([shape_op(2, (2, 2, 2)), setter(6), shape_op(1, B), setter(8), shape_op(1, (2, 2, 2))]))
        obs.append(plan_ob([shape_op(2, B), setter(8), shape_op(1, (2, 2, 2)), setter(6)]))
        obs.append(plan_ob([shape_op(2, B), setter(10), shape_op(1, (2, 2, 2)), setter(7), setter(8)]))
    # F5: per-frequency mode across shrink / grow in ports and frequencies (allocation > logical size in either dimension)
    for m in (8, 10):
        obs.append(plan_ob([shape_op(2, (1, 1, 2)), setter(m), shape_op(1, (1, 1, 1)), shape_op(1, (2, 2, 1)), shape_op(1, (2, 2, 2))]))
        obs.append(plan_ob([shape_op(2, (2, 2, 1)), shape_op(1, (1, 1, 1)), setter(m), shape_op(1, (2, 2, 1))]))
        obs.append(plan_ob([shape_op(2, (2, 2, 2)), shape_op(1, (1, 1, 1)), setter(m), shape_op(1, (2, 2, 2))]))
        obs.append(plan_ob([shape_op(2, (2, 2, 2)), setter(m), shape_op(1, (1, 1, 2)), setter(m), shape_op(1, (2, 2, 2))]))
        if tier != 'quick':
            for A in mids:
                for B in mids:
                    obs.append(plan_ob([shape_op(2, A), setter(m), shape_op(1, B), shape_op(1, (2, 2, 2))]))
                    obs.append(plan_ob([shape_op(2, (2, 2, 2)), shape_op(1, A), setter(m), shape_op(1, B), shape_op(1, (2, 2, 2))]))
    # F4: type validation: resize/init with every type code on fixed dims (no later allocation depends on the outcome)
    for t in range(-1, 12):
        for shp in ([(2, 2, 1), (1, 2, 1)] if tier == 'quick' else [(2, 2, 1), (1, 2, 1), (1, 1, 1), (2, 1, 1), (0, 0, 0)]):
            obs.append(plan_ob([shape_op(2, shp, t)]))
            if tier != 'quick':
                obs.append(plan_ob([shape_op(2, (2, 2, 1)), shape_op(1, shp, t)]))
    if tier == 'thorough':
        for k in (4, 6, 8, 11):
            obs.append(plan_ob([shape_op(2, (3, 3, 1)), setter(k), shape_op(1, (2, 2, 1)), shape_op(1, (3, 3, 1))], maxd=3, timeout=3000))
    seen = set(); out = []
    for o in obs:
        if o.id not in seen: seen.add(o.id); out.append(o)
    return out
