"""C03: no API call sequence corrupts memory, invokes UB or leaks.  The memory-safety verdict is CBMC's own instrumentation (bounds, pointer validity,
use-after-free, double free, signed overflow, undefined shifts, library assert()s, unwinding assertions) plus --memory-leak-check, on the bounded API-history
harnesses of the object families.  Those harnesses are shared with the functional properties; here they are run for their safety verdict."""
from vf.core import Ob

META = dict(
    level='proof', jobs=12,
    bounds='bounded API histories per object family, as stated in the family harnesses: vnadata (plans of 1..5 ops, dims 0..2, symbolic indices -1..n+1 and values), '
           'vnaproperty (one op from 12 small trees; containers with symbolic subscripts/keys; quote_key on arbitrary bytes), calibration slot table (inductive step from any '
           'table of allocation <= 3), parameter handles (enumerated histories of 3..5 ops), vnadata_convert (all type pairs), Touchstone loader (all 1-byte continuations of 11 prefixes), '
           'vnadata allocation faults (K-th allocation fails), number formatting (all precisions)',
    outside='vnacal_new add/solve/apply histories, vnacal_save / vnacal_load / vnadata_save I/O paths, NPD loader, YAML import/export (libyaml), histories longer than the stated depths',
    assumptions=['see the per-family harnesses (stubs: vasprintf, ctype, strdup, getc, printf length contract, recording conversion kernels)'],
    explanation='CBMC memory-safety / UB / leak instrumentation on the real code along all bounded histories of the family harnesses',
)


def obligations(tier):
    import props.C15 as c15, props.C13 as c13, props.C16 as c16, props.C05 as c05, props.C12 as c12, props.C09 as c09, props.C07 as c07, props.C10 as c10
    obs = []
    def take(mod, pred, n):
        sel = [o for o in mod.obligations(tier) if pred(o)]
        if tier == 'quick' and len(sel) > n:
            step = max(1, len(sel) // n); sel = sel[::step][:n]
        return sel
    obs += take(c15, lambda o: True, 40)
    obs += take(c13, lambda o: 'C13.d' in o.id or 'C13.c' in o.id, 60)
    obs += take(c13, lambda o: 'C13.a' in o.id, 16)
    obs += take(c16, lambda o: True, 40)
    obs += take(c05, lambda o: True, 40)
    obs += take(c12, lambda o: True, 40)
    obs += take(c09, lambda o: any(o.id.endswith(x) for x in ('ts-empty-plus1', 'ts-_-plus1', 'ts-__HZ_-plus1')), 3)
    obs += take(c07, lambda o: True, 2)
    obs += take(c10, lambda o: 'spline' in o.id, 4)
    for o in obs: o.id = 'C03/' + o.id
    return obs
