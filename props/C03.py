"""C03: no API call sequence corrupts memory, invokes UB or leaks.  The memory-safety verdict is CBMC's own instrumentation (bounds, pointer validity,
use-after-free, double free, signed overflow, undefined shifts, library assert()s, unwinding assertions) plus --memory-leak-check, on the bounded API-history
harnesses of the object families.  Those harnesses are shared with the functional properties; here they are run for their safety verdict."""
from vf.core import Ob

META = dict(
    level='proof', jobs=12,
    bounds='bounded API histories per object family, as stated in the family harnesses: vnadata (plans of 1..5 ops, dims 0..2, symbolic indices -1..n+1 and values), '
           'vnaproperty (one op from 12 small trees; containers with symbolic subscripts/keys; quote_key on arbitrary bytes), calibration slot table (inductive step from any '
           'table of allocation <= 3), parameter handles (enumerated histories of 3..5 ops), vnadata_convert (all type pairs), Touchstone loader (all 1-byte continuations of 11 prefixes), '
           'vnadata allocation faults (K-th allocation fails), number formatting (all precisions)',
    outside='vnacal_new add/solve/apply histories, vnacal_save / vnacal_load / vnadata_save I/O paths, NPD loader, YAML import/export (libyaml), histories longer than the stated depths',
    assumptions=['see the per-family harnesses (stubs: vasprintf, ctype, strdup, getc, printf length contract, recording conversion kernels)'],
    explanation='CBMC memory-safety / UB / leak instrumentation on the real code along all bounded histories of the family harnesses',
)


def obligations(tier):
    import props.C15 as c15, props.C13 as c13, props.C16 as c16, props.C05 as c05, props.C12 as c12, props.C09 as c09, props.C07 as c07, props.C10 as c10
    obs = []
    def take(mod, pred, n):
        sel = [o for o in mod.obligations(tier) if pred(o)]
        if tier == 'quick' and len(sel) > n:
            step = max(1, len(sel) // n); sel = sel[::step][:n]
        return sel
    obs += take(c15, lambda o: True, 40)
    obs += take(c13, lambda o: 'C13.d' in o.id or 'C13.c' in o.id, 60)
    obs += take(c13, lambda o: 'C13.a' in o.id, 16)
    obs += take(c16, lambda o: True, 40)
    obs += take(c05, lambda o: True, 40)
    obs += take(c12, lambda o: True, 40)
    obs += take(c09, lambda o: any(o.id.endswith(x) for x in ('ts-empty-plus1', 'ts-_-plus1', 'ts-__HZ_-plus1')), 3)
    obs += take(c07, lambda o: True, 2)
    obs += take(c10, lambda o: 'spline' in o.id, 4)
    for o in obs: o.id = 'C03/' + o.id
    return obs


def _xworker(mod, job):
    """one whole-flow job run for its memory verdict only: MemFault / abort / objects alive after the matching frees"""
    from props import calflow, yamlflow, C02, C06, C08
    kind = job['xkind']
    if kind == 'cal': r = calflow.cal_worker(mod, dict(job, concrete=True))
    elif kind == 'c02': r = C02.worker(mod, job)
    elif kind == 'c06': r = C06.io_worker(mod, job['job'])
    elif kind == 'c08': r = C08.worker(mod, job)
    else: r = yamlflow.worker(mod, job)
    mem = [x for x in r.get('sat', []) if 'allocated' in str(x.get('q', '')) or 'leak' in str(x.get('q', '')).lower()]
    conc = (r.get('concrete') or {}).get('fail') or []
    mem += [{'q': f} for f in conc if 'allocated' in f or 'heap' in f]
    return {'id': 'C03/x/' + str(r.get('id')), 'paths': r.get('paths', 0), 'queries': r.get('paths', 0) + (1 if r.get('concrete') else 0), 'unsat': (r.get('paths', 0) + (1 if r.get('concrete') else 0)) if not (r.get('fault') or mem) else 0,
            'sat': mem, 'unknown': [], 'fault': r.get('fault'), 'error': r.get('error') if r.get('error') else None}


def x_jobs(tier):
    from props import calcfg, yamlflow, C02, C06, C08
    J = []
    names = [c.name for c in calcfg.configs(tier)]
    pick = [n for n in names if any(t in n for t in ('-base', '-mapped-null', '-abbrev', '-ab-mapped', '-uneven', '-lines-only'))]
    if tier == 'quick': pick = [n for n in pick if not n.endswith('-ab-mapped') or n.startswith(('UE14', 'E12'))]
    J += [{'id': n, 'tier': tier, 'xkind': 'cal'} for n in pick]
    J += [{'id': '%s-limit1' % c.name, 'cfg': c.name, 'limit': 1, 'xkind': 'c02'} for c in C02.configs()]
    c6 = C06.jobs_for(tier)
    J += [{'id': j['id'], 'job': j, 'xkind': 'c06'} for j in c6 if j['ports'] <= 2 and (j.get('cells') == 'const' or j['expect'] == 'refuse' or j['z0'] in ('fz0', 'complex') or j['prec'] == 'max')]
    sp = C08.spellings(tier)
    J += [{'id': x['id'], 'tier': tier, 'xkind': 'c08'} for x in sp if x['ports'] == 2 and ('header-order-1' in x['id'] or 'ts' in x['id'])][:60]
    J += [dict(j, kind='C07', tier=tier, xkind='yaml') for j in yamlflow.c07_jobs(tier)]
    return J


def run(tier, only=None):
    """CBMC family harnesses (instrumentation + leak check) + the whole-flow (irx) jobs of the other properties run for their memory verdict"""
    import os, json, time, re
    from vf import core
    from props import calrun, calflow, calcfg
    t0 = time.time()
    obs = obligations(tier)
    if only: obs = [o for o in obs if only in o.id]
    rc_a = core.run_property('C03', obs, tier, META) if obs else 0
    ev_a = json.load(open(os.path.join(core.VERIF, 'evidence', 'C03.json'))) if obs else None
    ctx = core.Ctx()
    try:
        ml = calrun.build_whole_ir(ctx); calrun.load_module(ml)
        jobs = [j for j in x_jobs(tier) if not only or only in ('C03/x/' + j['id'])]
        results = calrun.run_jobs(_xworker, jobs, par=max(1, core.NCPU - 1), timeout=900, mem_gb=10) if jobs else []
        results = [dict(r, error=r['error']) if r.get('error') else {k: v for k, v in r.items() if k != 'error'} for r in results]
        native = calrun.Native(ctx); viol = []
        for r, j in zip(results, jobs):
            if r.get('error') or not (r.get('fault') or r.get('sat')): continue
            what = ('memory fault / abort in the symbolic run of the real code: ' + r['fault']) if r.get('fault') else '; '.join(str(x.get('q')) for x in r['sat'][:4])
            rd = os.path.join(core.VERIF, 'evidence', 'replay', 'C03_x_' + re.sub(r'\W+', '_', j['id']))
            if j['xkind'] == 'cal': src, files = calflow.native_program(calcfg.by_name(j['id'], tier)), None
            elif j['xkind'] == 'c02':
                from props import C02
                src, files = C02.native_program([c for c in C02.configs() if c.name == j['cfg']][0], 1), None
            elif j['xkind'] == 'c06':
                from props import C06
                src, files = C06.native_program(j['job']), None
            elif j['xkind'] == 'c08':
                from props import C08
                src, files = C08.native_program([x for x in C08.spellings(tier) if x['id'] == j['id']][0], None)
            else:
                from props import C07
                src, files = C07.native_roundtrip(j), None
            ok, how, outp = native.run_c(src, rd, extra_files=files)
            json.dump({'property': 'C03', 'job': j['id'], 'what': what, 'native': how}, open(os.path.join(rd, 'cex.json'), 'w'), indent=1, default=str)
            viol.append({'id': r['id'], 'what': what, 'replay': rd, 'confirmed': ok, 'how': how})
        meta = {'checker_cmd': 'CBMC 6.11 (family harnesses)  +  clang-14 IR of the whole library -> vf/irx.py (checked heap / stack objects, leak accounting at the end of each flow)',
                'trusted_base': (ev_a or {}).get('coverage', {}).get('trusted_base', []) + ['vf/irx.py object table and libc model', 'vf/yamlmodel.py (libyaml objects as leak tokens)'],
                'functions': ['(CBMC part: see cbmc_part)', 'vnacal_new_alloc / add_* / solve / solve_auto / free', 'vnacal_add_calibration / save / load / free', 'vnacal_apply_m', 'vnadata_save / load / convert / free', 'Touchstone / NPD parsers'],
                'bounds': META['bounds'] + '.  WHOLE FLOWS (irx): %d jobs - calibrate / apply / free flows of the C01 configurations (base, NULL port map, abbreviated, a/b, uneven, lines-only), solve_auto with an unknown parameter (all branch outcomes, limit 1), '
                          'vnadata save -> load (refused combinations, complex / per-frequency impedances, constant cells, maximum precision), parser runs on generated spellings, vnacal_save -> load round trips: for EVERY value of the symbolic doubles on every explored path, '
                          'no access outside an owned object, no use after free / double free / NULL dereference / read of never-written memory / failed library assert, nothing allocated after the matching frees (libyaml objects included)' % len(jobs),
                'outside': 'histories longer than the stated depths, allocation faults outside vnadata (C12), vnacal parameters beyond C16.b, integer overflow / shifts in the whole-flow part (the interpreter checks memory objects, not arithmetic UB), I/O errors',
                'explanation': META['explanation'] + '; plus the memory verdicts of the whole-flow symbolic runs (concrete control flow, symbolic doubles)',
                'assumptions': META['assumptions'] + ['whole flows: generic values (equality tests on symbolic doubles take the unequal branch)'],
                'samples': [{'id': r.get('id'), 'paths': r.get('paths'), 'time_s': r.get('time')} for r in results[:20]], 'evidence': False}
        rc_b, ev = calrun.report('C03', tier, results, viol, meta, t0)
        if ev_a:
            ev['coverage']['obligations'] += ev_a['coverage'].get('obligations', 0); ev['coverage']['discharged'] += ev_a['coverage'].get('discharged', 0)
            ev['coverage']['cbmc_part'] = {k: ev_a['coverage'].get(k) for k in ('obligations', 'discharged', 'solver_time_s', 'functions_encoded', 'bounds', 'samples') if k in ev_a['coverage']}
            ev['violations'] += ev_a.get('violations', 0)
        ev['wall_s'] = round(time.time() - t0, 1)
        json.dump(ev, open(os.path.join(core.VERIF, 'evidence', 'C03.json'), 'w'), indent=1)
        return 1 if 1 in (rc_a, rc_b) else max(rc_a, rc_b)
    finally:
        ctx.close()
