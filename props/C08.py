"""C08: equivalent spellings of a Touchstone / NPD file load to the same network data.
Engine: the real vnadata_load (Touchstone 1 / 2 and NPD parsers) executed by the whole-flow symbolic interpreter vf/irx.py on concrete
file skeletons (every byte of syntax concrete) whose data numbers are symbols: a number token stands for a z3 term, strtod returns that
term.  For each spelling z3 decides, for all values, that the loaded object equals the ground truth the file was generated from - type,
dimensions, frequencies, impedances and every cell; spellings of the same ground truth are therefore equal to each other.

Spellings (generated here from the format documents, not by the library's saver):
  unit         Hz / kHz / MHz / GHz with correspondingly scaled frequency numbers
  coordinates  RI / MA / DB of the same complex values (cos / sin / exp / uninterpreted: the claim needs only that the loader applies
               the documented polar formula to the right tokens)
  storage      Touchstone 2 Full / Upper / Lower of a symmetric matrix; 12_21 / 21_12 two-port order
  lexical      letter case of option line and keywords, order of option-line fields, comments, blank lines, tabs, line breaks inside a
               record, [Reference] values on the keyword line or the next
  framing      Touchstone 1 vs Touchstone 2 of the same data
  NPD          order of the '#:' header lines, letter case of the parameter name, comment lines
"""
import os, re, json, time, itertools
from fractions import Fraction
from vf import core

FREQS = [Fraction(10 ** 9), Fraction(5 * 10 ** 9, 2)]
UNITS = {'Hz': 1, 'kHz': 10 ** 3, 'MHz': 10 ** 6, 'GHz': 10 ** 9}
PI = 3.14159265358979323846264338327950288419716939937508
LOG10 = 2.302585092994045684017991454684364207601101488628772976033


def fnum(x):
    """a frequency literal"""
    x = Fraction(x)
    if x.denominator == 1: return str(x.numerator)
    return repr(float(x))


class Gen:
    """ground truth + token allocation for one interpreter"""
    def __init__(s, it, n, sym=False, coord='RI'):
        import z3
        from irsym import Rat
        from props.calflow import C, csym
        s.it = it; s.n = n; s.k = 0; s.coord = coord
        it.number_symbols = {}
        s.G = []
        for fi in range(len(FREQS)):
            m = [[None] * n for _ in range(n)]
            for r in range(n):
                for c in range(n):
                    if sym and c < r: m[r][c] = m[c][r]; continue
                    if coord == 'RI': m[r][c] = ('RI', Rat(z3.Real('g%d_%d%dr' % (fi, r, c))), Rat(z3.Real('g%d_%d%di' % (fi, r, c))))
                    else: m[r][c] = ('PO', Rat(z3.Real('g%d_%d%dm' % (fi, r, c))), Rat(z3.Real('g%d_%d%da' % (fi, r, c))))   # magnitude-ish primitive, angle in degrees
            s.G.append(m)

    def tok(s, rat):
        s.k += 1
        t = '8.%06d' % s.k
        s.it.number_symbols[t.encode()] = rat
        return t

    def _uf(s, name, x):
        import irx
        return irx._uf(s.it, name, [x])

    def value(s, cell):
        """ground-truth complex value of a cell as C"""
        from irsym import Rat
        from props.calflow import C
        kind, a, b = cell
        if kind == 'RI': return C(a, b)
        if s.coord == 'MA': mag = a
        else: mag = s._uf('exp', Rat.const(LOG10) * a / Rat.const(20.0))          # a is the dB value
        ang = Rat.const(PI / 180.0) * b
        return C(mag * s._uf('cos', ang), mag * s._uf('sin', ang))

    def pair(s, cell, coord):
        """two tokens spelling the cell in the given coordinates"""
        from irsym import Rat
        kind, a, b = cell
        if coord == 'RI':
            v = s.value(cell); return s.tok(v.re), s.tok(v.im)
        assert kind == 'PO'
        if coord == s.coord: return s.tok(a), s.tok(b)
        if coord == 'MA':   # truth primitive is dB
            return s.tok(s._uf('exp', Rat.const(LOG10) * a / Rat.const(20.0))), s.tok(b)
        raise ValueError('cannot spell a magnitude primitive in dB without log')


def option_line(unit='GHz', typ='S', coord='RI', r='50', order=(0, 1, 2, 3), case=None):
    parts = [unit, typ, coord, 'R ' + r]
    txt = '# ' + ' '.join(parts[i] for i in order)
    if case == 'lower': txt = txt.lower()
    elif case == 'upper': txt = txt.upper()
    elif case == 'mixed': txt = ''.join(ch.upper() if i % 2 else ch.lower() for i, ch in enumerate(txt))
    return txt


def ts1_text(g, unit='GHz', coord='RI', opt_kw=None, comments=False, blank=False, tabs=False, wrap=None, no_option=False):
    n = g.n
    sep = '\t' if tabs else ' '
    L = []
    if comments: L += ['! generated spelling', '!', '!  second comment line with # and [brackets]']
    if blank: L += ['', '   ']
    if not no_option: L.append(option_line(unit=unit, coord=coord, **(opt_kw or {})) + (' ! trailing comment' if comments else ''))
    if blank: L.append('')
    for fi, f in enumerate(FREQS):
        cells = [(r, c) for r in range(n) for c in range(n)]
        if n == 2: cells = [(0, 0), (1, 0), (0, 1), (1, 1)]
        toks = []
        for (r, c) in cells: toks += list(g.pair(g.G[fi][r][c], coord))
        ftok = fnum(f / UNITS[unit])
        if n <= 2 and wrap is None: L.append(sep.join([ftok] + toks))
        else:
            w = wrap or n          # pairs per line (the specification: one matrix row per line, at most 4 pairs)
            first = True
            for k in range(0, len(toks), 2 * w):
                L.append(sep.join(([ftok] if first else ['   ']) + toks[k:k + 2 * w]) + (' ! row' if comments and first else ''))
                first = False
        if blank and fi == 0: L.append('')
    if comments: L.append('! end of data')
    return '\n'.join(L) + '\n'


def ts2_text(g, unit='GHz', coord='RI', fmt='Full', order='12_21', kwcase=None, ref_inline=True, comments=False, opt_kw=None, ref=None, wrap=None, r='50'):
    n = g.n
    def kw(s_):
        if kwcase == 'lower': return s_.lower()
        if kwcase == 'upper': return s_.upper()
        return s_
    L = []
    if comments: L.append('! Touchstone 2 spelling')
    L.append(kw('[Version]') + ' 2.0')
    L.append(option_line(unit=unit, coord=coord, r=r, **(opt_kw or {})))
    L.append(kw('[Number of Ports]') + ' %d' % n)
    if n == 2: L.append(kw('[Two-Port Data Order]') + ' ' + order)
    L.append(kw('[Number of Frequencies]') + ' %d' % len(FREQS))
    if ref is not None:
        if ref_inline: L.append(kw('[Reference]') + ' ' + ' '.join(ref))
        else: L += [kw('[Reference]')] + [' '.join(ref[:2])] + ([' '.join(ref[2:])] if len(ref) > 2 else [])
    if fmt != 'Full' or kwcase: L.append(kw('[Matrix Format]') + ' ' + fmt)
    if comments: L.append('! data follow')
    L.append(kw('[Network Data]'))
    for fi, f in enumerate(FREQS):
        if fmt == 'Full': cells = [(r_, c) for r_ in range(n) for c in range(n)]
        elif fmt == 'Upper': cells = [(r_, c) for r_ in range(n) for c in range(r_, n)]
        else: cells = [(r_, c) for r_ in range(n) for c in range(0, r_ + 1)]
        if n == 2 and fmt == 'Full' and order == '21_12': cells = [(0, 0), (1, 0), (0, 1), (1, 1)]
        toks = []
        for (r_, c) in cells: toks += list(g.pair(g.G[fi][r_][c], coord))
        ftok = fnum(f / UNITS[unit])
        if wrap:
            first = True
            for k in range(0, len(toks), 2 * wrap):
                L.append(' '.join(([ftok] if first else []) + toks[k:k + 2 * wrap])); first = False
        else: L.append(' '.join([ftok] + toks))
    L.append(kw('[End]'))
    return '\n'.join(L) + '\n'


def npd_text(g, order=None, pcase='Sri', comments=False, z0=None):
    n = g.n
    hdr = {'version': '#:version 1.0', 'ports': '#:ports %d' % n, 'frequencies': '#:frequencies %d' % len(FREQS), 'parameters': '#:parameters ' + pcase,
           'z0': '#:z0 ' + ' '.join('%s %sj' % (a, b) for a, b in (z0 or [('50', '+0')] * n)), 'fprecision': '#:fprecision 7', 'dprecision': '#:dprecision 6'}
    order = order or ['version', 'ports', 'frequencies', 'parameters', 'z0', 'fprecision', 'dprecision']
    L = ['#NPD'] + [hdr[k] for k in order] + ['#']
    if comments: L += ['# field 1: frequency', '#', '# arbitrary comment: #:ports 9 is not a header here? no - plain comments start with "# "']
    for fi, f in enumerate(FREQS):
        toks = []
        for r in range(n):
            for c in range(n): toks += list(g.pair(g.G[fi][r][c], 'RI'))
        L.append(' '.join([fnum(f)] + toks))
        if comments and fi == 0: L.append('# between records')
    return '\n'.join(L) + '\n'


def spellings(tier):
    """(id, ports, file name, builder(g) -> text, generator kwargs)"""
    S = []
    def add(i, n, fname, fn, ptype='S', **gk): S.append({'id': i, 'ports': n, 'file': fname, 'build': fn, 'gk': gk, 'ptype': ptype})
    for n in ((1, 2, 3) if tier == 'quick' else (1, 2, 3, 4)):
        f1 = 'x.s%dp' % n
        for u in UNITS:
            add('ts1-%dp-unit-%s' % (n, u), n, f1, lambda g, u=u: ts1_text(g, unit=u))
            add('ts2-%dp-unit-%s' % (n, u), n, 'x.ts', lambda g, u=u: ts2_text(g, unit=u))
        for case in ('lower', 'upper', 'mixed'):
            add('ts1-%dp-case-%s' % (n, case), n, f1, lambda g, case=case: ts1_text(g, opt_kw={'case': case}))
        add('ts2-%dp-kwcase-lower' % n, n, 'x.ts', lambda g: ts2_text(g, kwcase='lower', opt_kw={'case': 'lower'}))
        add('ts2-%dp-kwcase-upper' % n, n, 'x.ts', lambda g: ts2_text(g, kwcase='upper', opt_kw={'case': 'upper'}))
        for k, od in enumerate(((3, 2, 1, 0), (1, 0, 3, 2), (2, 3, 0, 1))):
            add('ts1-%dp-optorder-%d' % (n, k), n, f1, lambda g, od=od: ts1_text(g, opt_kw={'order': od}))
        add('ts1-%dp-comments' % n, n, f1, lambda g: ts1_text(g, comments=True))
        add('ts1-%dp-blank-tabs' % n, n, f1, lambda g: ts1_text(g, blank=True, tabs=True))
        add('ts2-%dp-comments' % n, n, 'x.ts', lambda g: ts2_text(g, comments=True))
        add('ts2-%dp-in-sNp-file' % n, n, f1, lambda g: ts2_text(g))                 # Touchstone 2 framing in a .sNp file
        add('ts1-%dp-in-ts-file' % n, n, 'x.ts', lambda g: ts1_text(g)) if n <= 0 else None
        add('ts2-%dp-reference-inline' % n, n, 'x.ts', lambda g, n=n: ts2_text(g, ref=['50'] * n))
        add('ts2-%dp-reference-nextline' % n, n, 'x.ts', lambda g, n=n: ts2_text(g, ref=['50'] * n, ref_inline=False))
        add('ts2-%dp-wrapped' % n, n, 'x.ts', lambda g: ts2_text(g, wrap=2))
        for co in ('MA', 'DB'):
            add('ts1-%dp-%s' % (n, co), n, f1, lambda g, co=co: ts1_text(g, coord=co), coord=co)
            add('ts2-%dp-%s' % (n, co), n, 'x.ts', lambda g, co=co: ts2_text(g, coord=co), coord=co)
            add('ts1-%dp-%s-as-RI' % (n, co), n, f1, lambda g: ts1_text(g, coord='RI'), coord=co)
        add('ts1-%dp-DB-as-MA' % n, n, f1, lambda g: ts1_text(g, coord='MA'), coord='DB')
        if n >= 2:
            add('ts2-%dp-upper' % n, n, 'x.ts', lambda g: ts2_text(g, fmt='Upper'), sym=True)
            add('ts2-%dp-lower' % n, n, 'x.ts', lambda g: ts2_text(g, fmt='Lower'), sym=True)
            add('ts2-%dp-full-symmetric' % n, n, 'x.ts', lambda g: ts2_text(g, fmt='Full'), sym=True)
        if n == 2:
            add('ts2-2p-order-21_12', n, 'x.ts', lambda g: ts2_text(g, order='21_12'))
            add('ts2-2p-order-12_21', n, 'x.ts', lambda g: ts2_text(g, order='12_21'))
        base = ['version', 'ports', 'frequencies', 'parameters', 'z0', 'fprecision', 'dprecision']
        perms = [base, ['version', 'frequencies', 'ports', 'z0', 'parameters', 'dprecision', 'fprecision'], ['version', 'parameters', 'ports', 'frequencies', 'z0', 'fprecision', 'dprecision'],
                 ['version', 'ports', 'z0', 'frequencies', 'parameters', 'fprecision', 'dprecision'], ['version', 'dprecision', 'fprecision', 'ports', 'parameters', 'frequencies', 'z0']]
        for k, od in enumerate(perms):
            add('npd-%dp-header-order-%d' % (n, k), n, 'x.npd', lambda g, od=od: npd_text(g, order=od))
        for pc in ('SRI', 'sri', 'S', 's', 'sRi'):
            add('npd-%dp-parameter-%s' % (n, pc), n, 'x.npd', lambda g, pc=pc: npd_text(g, pcase=pc))
        add('npd-%dp-comments' % n, n, 'x.npd', lambda g: npd_text(g, comments=True))
        if n == 2:
            for pt in ('T', 'U', 'H', 'G', 'A', 'B', 'Z', 'Y'):
                for k, od in enumerate(perms):
                    add('npd-2p-%s-header-order-%d' % (pt, k), n, 'x.npd', lambda g, od=od, pt=pt: npd_text(g, order=od, pcase=pt + 'ri'), ptype=pt)
    return [x for x in S if x is not None]


class Holder:
    pass


def run_once(mod, sp, choices, holder):
    import z3, irsym
    from irx import XInterp, NULL, sgn, Special
    from irsym import Rat
    from props.calflow import C
    it = XInterp(mod); it.generic = True; it.choices = list(choices)
    h = Holder(); h.it = it; holder['flow'] = h
    res = {'queries': 0, 'unsat': 0, 'sat': [], 'unknown': []}
    call = lambda n, a: it.call('@' + n, a)
    icall = lambda n, a: sgn(call(n, a) & 0xffffffff, 32)
    g = Gen(it, sp['ports'], **sp['gk'])
    text = sp['build'](g)
    res['text'] = text[:1500]
    fname = sp['file'].encode()
    it.fs[fname] = text.encode()
    n = sp['ports']
    def check(cond, q, detail=None):
        res['queries'] += 1
        if cond: res['unsat'] += 1
        else: res['sat'].append({'q': q, 'detail': detail})
        return cond
    def prove(exprs, q):
        ex = []
        for e in exprs:
            if isinstance(e, C): ex += [e.re, e.im]
            else: ex.append(e)
        if any(isinstance(e, Special) for e in ex): res['sat'].append({'q': q, 'detail': 'non-finite value'}); return False
        st, mdl = irsym.check_zero(it, ex, timeout_ms=60000)
        res['queries'] += 1
        if st == 'unsat': res['unsat'] += 1; return True
        if st == 'sat': res['sat'].append({'q': q, 'model': {d.name(): str(mdl[d]) for d in mdl.decls()}}); return False
        res['unknown'].append({'q': q, 'why': str(mdl)}); return None
    v = call('vnadata_alloc', [NULL, NULL])
    it.set_errno(0)
    rc = icall('vnadata_load', [v, it.static_str(fname)])
    if not check(rc == 0, 'the spelling is accepted by vnadata_load', 'returned %d, errno %d, %s' % (rc, it.get_errno(), [m.decode() for c_, m in it.errors[-2:]])): return res
    tcode = {'S': 1, 'T': 2, 'U': 3, 'Z': 4, 'Y': 5, 'H': 6, 'G': 7, 'A': 8, 'B': 9}[sp.get('ptype', 'S')]
    check(icall('vnadata_get_type', [v]) == tcode, 'parameter type ' + sp.get('ptype', 'S'), icall('vnadata_get_type', [v]))
    check((icall('vnadata_get_rows', [v]), icall('vnadata_get_columns', [v])) == (n, n), 'dimensions', (icall('vnadata_get_rows', [v]), icall('vnadata_get_columns', [v])))
    if not check(icall('vnadata_get_frequencies', [v]) == len(FREQS), 'frequency count', icall('vnadata_get_frequencies', [v])): return res
    prove([call('vnadata_get_frequency', [v, i]) - Rat(FREQS[i], Fraction(1)) for i in range(len(FREQS))], 'frequencies in Hz')
    zz = [call('vnadata_get_z0', [v, i]) for i in range(n)]
    prove([C(a, b) - C(Rat.const(50.0), Rat.const(0.0)) for a, b in zz], 'reference impedances')
    for fi in range(len(FREQS)):
        ex = []
        for r in range(n):
            for c in range(n):
                w = call('vnadata_get_cell', [v, fi, r, c])
                ex.append(C(w[0], w[1]) - g.value(g.G[fi][r][c]))
        prove(ex, 'every cell equals the ground truth at frequency %d' % fi)
    call('vnadata_free', [v])
    check(not it.live_heap(), 'nothing stays allocated after vnadata_free', len(it.live_heap()))
    return res


def worker(mod, job):
    import irx
    from props.calflow import all_paths
    sp = [x for x in spellings(job['tier']) if x['id'] == job['id']][0]
    out = {'id': job['id'], 'paths': 0, 'queries': 0, 'unsat': 0, 'sat': [], 'unknown': [], 'fault': None}
    try:
        rs = all_paths(lambda ch, h: run_once(mod, sp, ch, h), max_paths=16)
    except (irx.MemFault, irx.LibAbort) as e:
        out['fault'] = '%s: %s' % (type(e).__name__, e); return out
    for r in rs:
        out['paths'] += 1; out['queries'] += r['queries']; out['unsat'] += r['unsat']; out['sat'] += r['sat']; out['unknown'] += r['unknown']
    out['text'] = rs[0].get('text') if rs else None
    return out


def native_program(sp, mod_text):
    """the spelling with numeric values in place of the symbols, loaded natively and compared with the values it was generated from"""
    import random, math, cmath
    rnd = random.Random(7)
    # numeric instance: re-generate the text with a fake interpreter that hands out numeric tokens
    class FakeIt: pass
    vals = {}
    class NGen(Gen):
        def __init__(s, n, sym=False, coord='RI'):
            s.n = n; s.coord = coord; s.k = 0
            s.G = []
            for fi in range(len(FREQS)):
                m = [[None] * n for _ in range(n)]
                for r in range(n):
                    for c in range(n):
                        if sym and c < r: m[r][c] = m[c][r]; continue
                        if coord == 'RI': m[r][c] = ('RI', rnd.randint(-90, 90) / 64.0, rnd.randint(-90, 90) / 64.0)
                        elif coord == 'MA': m[r][c] = ('PO', rnd.randint(1, 90) / 64.0, float(rnd.randint(-170, 170)))
                        else: m[r][c] = ('PO', float(rnd.randint(-30, 3)), float(rnd.randint(-170, 170)))
                s.G.append(m)
        def tok(s, x): return repr(float(x))
        def value(s, cell):
            kind, a, b = cell
            if kind == 'RI': return complex(a, b)
            mag = a if s.coord == 'MA' else 10 ** (a / 20.0)
            return cmath.rect(mag, math.radians(b))
        def pair(s, cell, coord):
            kind, a, b = cell
            if coord == 'RI':
                v = s.value(cell); return repr(v.real), repr(v.imag)
            if coord == s.coord: return repr(a), repr(b)
            if coord == 'MA': return repr(10 ** (a / 20.0)), repr(b)
            raise ValueError
    g = NGen(sp['ports'], **sp['gk'])
    text = sp['build'](g)
    n = sp['ports']
    L = ['#include <stdio.h>', '#include <math.h>', '#include <complex.h>', '#include <vnadata.h>',
         'static void errfn(const char *m, void *a, vnaerr_category_t c) { fprintf(stderr, "libvna: %s\\n", m); }',
         'static const double complex truth[%d] = {%s};' % (len(FREQS) * n * n, ', '.join('%r + %r * I' % (g.value(g.G[fi][r][c]).real, g.value(g.G[fi][r][c]).imag) for fi in range(len(FREQS)) for r in range(n) for c in range(n))),
         'static const double fr[%d] = {%s};' % (len(FREQS), ', '.join(repr(float(f)) for f in FREQS)),
         'int main(void) { int bad = 0; vnadata_t *v = vnadata_alloc(errfn, NULL);',
         '  if (vnadata_load(v, "vf_%s") != 0) { fprintf(stderr, "VF-ASSERT-FAIL: an equivalent spelling is rejected\\n"); vnadata_free(v); return 1; }' % sp['file'],
         '  if (vnadata_get_type(v) != VPT_%s || vnadata_get_rows(v) != %d || vnadata_get_columns(v) != %d || vnadata_get_frequencies(v) != %d) { fprintf(stderr, "VF-ASSERT-FAIL: type / dimensions\\n"); vnadata_free(v); return 1; }' % (sp.get('ptype', 'S'), n, n, len(FREQS)),
         '  for (int f = 0; f < %d; ++f) { if (fabs(vnadata_get_frequency(v, f) - fr[f]) > 1e-3) { fprintf(stderr, "VF-ASSERT-FAIL: frequency %%d is %%g\\n", f, vnadata_get_frequency(v, f)); bad = 1; }' % len(FREQS),
         '    for (int r = 0; r < %d; ++r) for (int c = 0; c < %d; ++c) { double complex a = vnadata_get_cell(v, f, r, c), b = truth[(f * %d + r) * %d + c];' % (n, n, n, n),
         '      if (!(cabs(a - b) <= 1e-9 * (1 + cabs(b)))) { fprintf(stderr, "VF-ASSERT-FAIL: cell (%d,%d,%d) loads as %g%+gi, generated from %g%+gi\\n", f, r, c, creal(a), cimag(a), creal(b), cimag(b)); bad = 1; } } }',
         '  for (int p = 0; p < %d; ++p) if (cabs(vnadata_get_z0(v, p) - 50.0) > 1e-9) { fprintf(stderr, "VF-ASSERT-FAIL: z0\\n"); bad = 1; }' % n,
         '  vnadata_free(v); return bad; }']
    return '\n'.join(L) + '\n', {'vf_' + sp['file']: text.encode()}


def run(tier, only=None):
    from props import calrun
    t0 = time.time()
    ctx = core.Ctx()
    try:
        ml = calrun.build_whole_ir(ctx); calrun.load_module(ml)
        sps = [x for x in spellings(tier) if not only or only in x['id']]
        jobs = [{'id': x['id'], 'tier': tier} for x in sps]
        results = calrun.run_jobs(worker, jobs, par=max(1, core.NCPU - 1), timeout=300 if tier == 'quick' else 1200, mem_gb=8)
        native = calrun.Native(ctx); viol = []
        for r, sp in zip(results, sps):
            if r.get('error'): continue
            whats = []
            if r.get('fault'): whats.append('memory fault / abort in the symbolic run of the real code: ' + r['fault'])
            for x in r.get('sat', []): whats.append('%s %s' % (x.get('q'), json.dumps({k: v for k, v in x.items() if k != 'q'}, default=str)[:300]))
            if not whats: continue
            rd = os.path.join(core.VERIF, 'evidence', 'replay', 'C08_' + re.sub(r'\W+', '_', r['id']))
            src, files = native_program(sp, None)
            ok, how, outp = native.run_c(src, rd, extra_files=files)
            json.dump({'property': 'C08', 'spelling': r['id'], 'what': whats, 'native': how, 'text': r.get('text')}, open(os.path.join(rd, 'cex.json'), 'w'), indent=1, default=str)
            viol.append({'id': r['id'], 'what': ' ;; '.join(whats), 'replay': rd, 'confirmed': ok, 'how': how})
        meta = {'checker_cmd': 'clang-14 -O0 -emit-llvm (whole library) | llvm-link | opt -mem2reg | vf/irx.py (symbolic load of generated spellings over an in-memory file system) | z3',
                'trusted_base': ['clang-14 front end', 'vf/irparse.py, irsym.py, irx.py (stdio / strtod model, number tokens standing for z3 terms)', 'z3',
                                 'the spelling generators of props/C08.py written from the Touchstone 1.1 / 2.0 specifications and vnadata_save(3)', 'clang ASan/UBSan native build for replay'],
                'functions': ['vnadata_load', '_vnadata_load_touchstone', '_vnadata_load_npd', '_vnadata_parse_filename', 'vnadata_set_format (parse_format)', '...'],
                'bounds': '%d spellings of S-parameter data with 1..%d ports and 2 frequencies (1 GHz, 2.5 GHz), reference 50 ohm; every data number a free real symbol (RI) or a free magnitude / dB / angle symbol (MA, DB); '
                          'all syntax bytes concrete' % (len(jobs), 3 if tier == 'quick' else 4),
                'outside': 'parameter types other than S, impedances other than 50 ohm, more frequencies / ports, digits of numbers (a token is its exact value), noise-parameter blocks, spellings not generated here',
                'explanation': __doc__,
                'assumptions': ['exact real arithmetic; cos / sin / exp uninterpreted'],
                'samples': [{'id': r.get('id'), 'paths': r.get('paths'), 'queries': r.get('queries'), 'time_s': r.get('time')} for r in results[:30]]}
        rc, ev = calrun.report('C08', tier, results, viol, meta, t0)
        return rc
    finally:
        ctx.close()
