from vf.core import Ob
import props.C09 as c09

META = dict(
    level='proof',
    bounds='Touchstone option-line / keyword spellings: a concrete prefix and suffix around ONE symbolic byte; the loader is run on both spellings '
           '(lower vs upper case letter; "!" + any byte + newline vs newline; blank + tab/CR/blank vs blank) and the two results are compared',
    outside='unit scaling and RI/MA/DB numeric equivalence (rounding, cexp); Full/Upper/Lower, 12_21/21_12, V1 vs V2 framing, NPD header order '
            '(token-level design C08.b/c not built); more than one differing byte',
    assumptions=c09.META['assumptions'],
    explanation='bounded symbolic differential check of the real Touchstone loader on two spellings of the same text',
)


def obligations(tier):
    obs = []
    cases = [(0, '# ', ''), (0, '# H', 'z'), (0, '# hz ', ' ri'), (0, '# hz s r', 'i r 50\\n'), (0, '[Versio', 'n] 2.0\\n# hz\\n'),
             (1, '# hz s ri r 50', ''), (1, '[Version] 2.0', '# hz\\n'), (2, '# hz', 's ri'), (2, '#', 'hz')]
    if tier != 'quick':
        cases += [(0, '# hz s ', 'a r 50\\n'), (0, '# hz s d', 'b\\n'), (0, '# hz ', ' ma r 75\\n'), (1, '# hz s ri r 50\\n', ''), (2, '# hz s ri r', '50\\n')]
    for mode, pre, suf in cases:
        nm = 'mode%d-%s-%s' % (mode, ''.join(c if c.isalnum() else '_' for c in pre), ''.join(c if c.isalnum() else '_' for c in suf))
        obs.append(Ob('C08.a/' + nm, 'C09_touchstone.c', engine='L',
                      defs={'C08': 1, 'MODE': mode, 'PREFIX': '"%s"' % pre, 'SUFFIX': '"%s"' % suf},
                      unwind=len(pre) + len(suf) + 16, ovr=c09.OVR, leak=True, timeout=900 if tier == 'quick' else 3000,
                      optional_witnesses=['both accepted'], functions=['_vnadata_load_touchstone', 'next_token', 'next_char'],
                      bounds='%r + one symbolic byte (mode %d) + %r' % (pre, mode, suf), stubs=['getc buffer', 'strtod/strtol', 'vasprintf', 'ctype'],
                      what='two equivalent spellings around one symbolic byte load identically'))
    return obs
