from vf.core import Ob

META = dict(
    level='proof',
    bounds='C10.a: all frequencies are symbolic IEEE doubles in [1, 1e15], grids of 2 points; bit-precise float comparison (CBMC floatbv). '
           'C10.b-e: see per-obligation bounds',
    outside='the 1..5 % band (slack is an internal constant); reproduction of rational functions between knots by _vnacal_rfi (the algorithm is '
            'perturbed by EPS, not an exact identity); accuracy between knots',
    assumptions=['vasprintf stub', 'spline / rfi kernels stubbed where only the range decision is the subject',
                 'rfi obligations: floating multiply/divide/sqrt are uninterpreted functions (add/sub/compare/fabs bit-precise): the at-knot and segment claims do not depend on products',
                 'knots are frequencies in [1, 1e15] Hz'],
    explanation='bounded symbolic check of the real range tests and interpolation kernels',
)

NAMES = {0: 'check_single_frequency_range', 1: 'vnacal_new_set_m_error', 2: 'vnacal_get_parameter_value', 3: 'calibration_f_bounds'}


def obligations(tier):
    obs = []
    for w in range(4):
        obs.append(Ob('C10.a/%s' % NAMES[w], 'C10_range.c', engine='L', defs={'WHICH': w}, unwind=4, ovr=['vasprintf'], timeout=600,
                      exclude={1: ['vnacommon_spline.c'], 2: ['vnacal_rfi.c']}.get(w, []),
                      functions=[NAMES[w]], bounds='frequencies symbolic doubles in [1,1e15]', stubs=['vasprintf', 'spline/rfi kernels (arbitrary values)'],
                      what='%s: >= 5%% miss at either end refused, full cover accepted, for all double frequencies' % NAMES[w]))
    IN = {0: 'rfi-at-knots', 1: 'rfi-hint-independence', 2: 'spline-eval-at-knots', 3: 'spline-calc-eval'}
    for w in range(4):
        for npt in ((2, 3) if tier == 'quick' else (1, 2, 3, 4, 5)):
            if w >= 2 and npt > 4: continue
            if w == 1 and npt < 3: continue
            for mw in (range(1, min(npt, 5) + 1) if w < 2 else [0]):
              if tier == 'quick' and w < 2 and (npt, mw) not in ((2, 1), (2, 2), (3, 1)): continue
              obs.append(Ob('C10.%s/%s-n%d%s' % ('bcdd'[w], IN[w], npt, '-m%d' % mw if mw else ''), 'C10_interp.c', engine='L',
                          defs=dict({'WHICH': w, 'NPT': npt}, **({'MWIN': mw} if mw else ({'SAFETY_ONLY': 1} if (w == 3 and npt >= 3) else {}))), unwind=npt + 3,
                          leak=True, timeout=900 if tier == 'quick' else 3000, uf='muldiv' if (w < 2 or (w == 3 and npt >= 3)) else False, mem_gb=12 if tier == 'quick' else 28,
                          optional_witnesses=['calc ok', 'calc refused'],
                          functions=['_vnacal_rfi'] if w < 2 else ['_vnacommon_spline_calc', '_vnacommon_spline_eval'],
                          bounds='%d knots, all values symbolic finite doubles, hint -3..n+3, window 1..min(n,5)' % npt,
                          what='%s with %d knots' % (IN[w], npt)))
    return obs
