"""Calibrate-side flows of libvna run on the real code by the whole-flow symbolic interpreter (vf/irx.py).

A *configuration* fixes everything that decides control flow: error-term type, rows x columns, the sequence of
vnacal_new_add_* calls (entry point, m or a/b form, full or abbreviated measurement matrix, ports / port map, which S cells
are given and which of them are the predefined zero).  Every measured value, every standard's reflection / transmission
coefficient and every solved unknown is a free complex symbol.

  flow          vnacal_create -> vnacal_new_alloc -> set_frequency_vector -> add_* ... -> vnacal_new_solve
  hooks         _vnacommon_mldivide / _vnacommon_qrsolve called from _vnacal_new_solve_simple are replaced: the hook records
                the coefficient matrix A and right-hand side b the library assembled and returns fresh symbols x
  oracle        written from vnacal_new(3) and the comments of vnacal_layout.h: full S matrix of each standard (given cells,
                zeros between connected and unconnected ports, zeros off the diagonal of reflect standards, unknown elsewhere),
                full M matrix (abbreviated rows / columns in port order; M = B A^-1; per-column b/a for UE14 / E12),
                leakage estimate El (mean of M over the standards without a signal path), and the residual cells of
                     T:    -Ts S - Ti + M' Tx S + M' Tm = 0          U:  Um M' + Ui - S Ux M' - S Us = 0
                     UE14: per column c:  um_c M'(:,c) + ui_c e_c - S (ux_c M'(:,c) + us_c e_c) = 0
  decided by z3 (identity of polynomials, all symbols free):
     soundness      every assembled row  A_i x - b_i  is +/- one documented residual cell evaluated at e(x)
     completeness   every documented residual cell all of whose S and M factors are known appears among the rows
     placement      the error terms stored in the calibration are e(x) (unity term inserted, leakage terms appended,
                    E12: the documented conversion from the per-column U terms)
  generic determinacy (exact rational run): with measurements produced by the documented forward model from random rational
     error terms, the assembled system has full column rank, its exact solution is the true terms up to the documented
     normalisation, and vnacal_apply_m on the forward-model measurement of a random DUT returns that DUT exactly.
"""
import os, sys, time, json, random, itertools
from fractions import Fraction

T8, U8, TE10, UE10, T16, U16, UE14, E12U, E12 = range(9)
NAMES = {0: 'T8', 1: 'U8', 2: 'TE10', 3: 'UE10', 4: 'T16', 5: 'U16', 6: 'UE14', 7: 'E12_UE14', 8: 'E12'}
IS_T = (T8, TE10, T16)
HAS_EL = (TE10, UE10, UE14, E12)
COLSYS = (UE14, E12)
MATCH, OPEN, SHORT = 0, 1, 2


# ---------------------------------------------------------------------------------------------------------------------
# complex numbers over irsym.Rat

class C:
    __slots__ = ('re', 'im')
    def __init__(s, re, im): s.re = re; s.im = im
    def __add__(a, b): return C(a.re + b.re, a.im + b.im)
    def __sub__(a, b): return C(a.re - b.re, a.im - b.im)
    def __neg__(a): return C(-a.re, -a.im)
    def __mul__(a, b): return C(a.re * b.re - a.im * b.im, a.re * b.im + a.im * b.re)
    def __truediv__(a, b):
        den = b.re * b.re + b.im * b.im
        return C((a.re * b.re + a.im * b.im) / den, (a.im * b.re - a.re * b.im) / den)
    def isconst(s): return hasattr(s.re, 'isconst') and hasattr(s.im, 'isconst') and s.re.isconst() and s.im.isconst()
    def iszero(s): return s.isconst() and s.re.value() == 0 and s.im.value() == 0


def cconst(x, y=0):
    from irsym import Rat
    return C(Rat(Fraction(x), Fraction(1)), Rat(Fraction(y), Fraction(1)))


def csym(name):
    import z3
    from irsym import Rat
    return C(Rat(z3.Real(name + 'r')), Rat(z3.Real(name + 'i')))


def mat_inv(Mx):
    """exact inverse by Gauss-Jordan over C (used with constants, and with symbols for n <= 2)"""
    n = len(Mx)
    A = [[Mx[r][c] for c in range(n)] + [cconst(1) if r == c else cconst(0) for c in range(n)] for r in range(n)]
    for k in range(n):
        p = None
        for r in range(k, n):
            if not A[r][k].iszero(): p = r; break
        if p is None: raise ZeroDivisionError('singular')
        A[k], A[p] = A[p], A[k]
        pv = A[k][k]
        A[k] = [v / pv for v in A[k]]
        for r in range(n):
            if r != k and not A[r][k].iszero():
                f = A[r][k]
                A[r] = [A[r][c] - f * A[k][c] for c in range(2 * n)]
    return [row[n:] for row in A]


def mat_mul(X, Y):
    out = []
    for r in range(len(X)):
        row = []
        for c in range(len(Y[0])):
            acc = cconst(0)
            for k in range(len(Y)): acc = acc + X[r][k] * Y[k][c]
            row.append(acc)
        out.append(row)
    return out


# ---------------------------------------------------------------------------------------------------------------------
# configurations

class Std:
    """one vnacal_new_add_* call.
       kind: 'single' | 'double' | 'through' | 'line' | 'mapped'
       ports: VNA ports (1-based) of the standard's ports, in the order of the standard's ports
       s: for single/double: list of parameter specs; line/mapped: row-major s_rows x s_cols specs ('match','open','short','zero','one' or ('sym', name))
       form: 'm' | 'ab';  brows/bcols: dimensions of the measurement matrix passed; map_null: pass NULL as port map (mapped only)"""
    def __init__(s, kind, ports, sp=None, form='m', brows=None, bcols=None, s_rows=None, s_cols=None, map_null=False):
        s.kind = kind; s.ports = list(ports); s.sp = list(sp or []); s.form = form; s.brows = brows; s.bcols = bcols
        s.s_rows = s_rows; s.s_cols = s_cols; s.map_null = map_null
        s.sid = None          # canonical identity of the physical standard (kept by re-descriptions; names its measurement symbols)

    def tag(s):
        return '%s%s(%s)%s%s' % (s.kind[:2], ''.join(str(p) for p in s.ports), ','.join(x if isinstance(x, str) else x[1] for x in s.sp),
                                 '' if s.form == 'm' else '/' + s.form, '' if s.brows is None else '[%dx%d]' % (s.brows, s.bcols))


class Config:
    def __init__(s, typ, rows, cols, stds, name=None, m_error=False):
        s.typ = typ; s.rows = rows; s.cols = cols; s.stds = stds; s.m_error = m_error
        s.name = name or '%s-%dx%d-%s' % (NAMES[typ], rows, cols, '+'.join(x.tag() for x in stds))
    @property
    def ports(s): return max(s.rows, s.cols)


PRE = {'match': (MATCH, 0), 'open': (OPEN, 1), 'short': (SHORT, -1), 'zero': (MATCH, 0), 'one': (OPEN, 1)}


# ---------------------------------------------------------------------------------------------------------------------
# oracle

class StdModel:
    """what the documentation says a standard contributes: full S (known / zero / unknown), full M (given cells)"""
    pass


def std_model(cfg, st, k, val):
    """val(spec, tag) -> C for a parameter spec;  returns StdModel with
         S[r][c] = C | None(unknown);  Sz[r][c] True if known to be exactly zero by structure
         Mgiven[r][c] bool;  bshape"""
    P = cfg.ports; rows, cols = cfg.rows, cfg.cols
    m = StdModel()
    m.S = [[None] * P for _ in range(P)]; m.Sz = [[False] * P for _ in range(P)]
    conn = [False] * P
    pm = [p - 1 for p in st.ports]
    if st.kind == 'mapped' and st.map_null: conn = [True] * P
    else:
        for p in pm: conn[p] = True
    def put(r, c, spec):
        if spec == 'zero' or spec == 'match': m.S[r][c] = cconst(0); m.Sz[r][c] = True
        else: m.S[r][c] = val(spec, 's%d_%d%d' % (k, r, c))
    if st.kind in ('single', 'double'):
        for i, p in enumerate(pm): put(p, p, st.sp[i])
        for r in pm:
            for c in pm:
                if r != c: m.S[r][c] = cconst(0); m.Sz[r][c] = True
    elif st.kind == 'through':
        a, b = pm
        put(a, a, 'zero'); put(b, b, 'zero'); put(a, b, 'one'); put(b, a, 'one')
    elif st.kind == 'line':
        a, b = pm
        put(a, a, st.sp[0]); put(a, b, st.sp[1]); put(b, a, st.sp[2]); put(b, b, st.sp[3])
    else:
        sr, sc = st.s_rows, st.s_cols
        mp = list(range(P)) if st.map_null else pm
        for i in range(sr):
            for j in range(sc): put(mp[i], mp[j], st.sp[i * sc + j])
    for r in range(P):
        for c in range(P):
            if conn[r] != conn[c]: m.S[r][c] = cconst(0); m.Sz[r][c] = True
    # note: 'match' given as a parameter is the predefined zero handle: the library treats the predefined zero as structural
    # which full-M cells are given: abbreviated rows / columns are the standard's ports in port-number order
    sp_sorted = sorted(p for p in range(P) if conn[p]) if not (st.kind == 'mapped' and st.map_null) else list(range(P))
    br = st.brows if st.brows is not None else rows
    bc = st.bcols if st.bcols is not None else cols
    m.rowmap = list(range(rows)) if br == rows else sp_sorted[:br]
    m.colmap = list(range(cols)) if bc == cols else sp_sorted[:bc]
    m.br, m.bc = br, bc
    m.conn = conn
    # connectivity: ports joined through cells not known to be zero
    grp = list(range(P))
    def find(i):
        while grp[i] != i: i = grp[i]
        return i
    for r in range(P):
        for c in range(P):
            if r != c and not m.Sz[r][c]:
                i, j = find(r), find(c)
                if i != j: grp[max(i, j)] = min(i, j)
    m.connected = [[r == c or find(r) == find(c) for c in range(P)] for r in range(P)]
    return m


def layout_doc(typ, rows, cols):
    """offsets of the blocks, from the table in vnacal_new(3) and the macros' documented dimensions"""
    P = max(rows, cols)
    L = {}
    if typ in (T16,):
        L.update(ts=0, ti=rows * P, tx=2 * rows * P, tm=2 * rows * P + cols * P, t_terms=2 * rows * P + 2 * cols * P)
    elif typ in (U16,):
        L.update(ts=0, ti=P * rows, tx=P * rows + P * cols, tm=2 * P * rows + P * cols, t_terms=2 * P * rows + 2 * P * cols)
    elif typ in (T8, TE10):
        L.update(ts=0, ti=rows, tx=2 * rows, tm=2 * rows + cols, t_terms=2 * rows + 2 * cols)
    elif typ in (U8, UE10):
        L.update(ts=0, ti=rows, tx=rows + cols, tm=2 * rows + cols, t_terms=2 * rows + 2 * cols)
    else:   # UE14 per column: um(rows) ui(1) ux(rows) us(1)
        L.update(ts=0, ti=rows, tx=rows + 1, tm=2 * rows + 1, t_terms=2 * rows + 2)
    L['systems'] = cols if typ in (UE14, E12, E12U) else 1
    L['el'] = L['t_terms'] * L['systems']
    L['el_terms'] = rows * cols - min(rows, cols) if typ in (TE10, UE10, UE14, E12, E12U) else 0
    return L


def residual(cfg, L, sm, Mp, e, r, c, sysidx=0):
    """documented residual cell (r, c) of one standard with error-term vector e (list of C, per system offset applied by caller)
       Returns (C, ok) where ok is False if an unknown S cell or a missing M cell has a structurally non-zero coefficient."""
    typ, rows, cols, P = cfg.typ, cfg.rows, cfg.cols, cfg.ports
    S = sm.S; ok = [True]
    zero = cconst(0)
    def s_(i, j):
        if S[i][j] is None: ok[0] = False; return zero
        return S[i][j]
    def m_(i, j):
        if Mp[i][j] is None: ok[0] = False; return zero
        return Mp[i][j]
    acc = zero
    if typ in (T16,):
        ts = lambda i, j: e[L['ts'] + i * P + j]; ti = lambda i, j: e[L['ti'] + i * P + j]
        tx = lambda i, j: e[L['tx'] + i * P + j]; tm = lambda i, j: e[L['tm'] + i * P + j]
        for j in range(P):
            if not sm.Sz[j][c]: acc = acc - ts(r, j) * s_(j, c)
        acc = acc - ti(r, c)
        for i in range(cols):
            inner = tm(i, c)
            for j in range(P):
                if not sm.Sz[j][c]: inner = inner + tx(i, j) * s_(j, c)
            acc = acc + m_(r, i) * inner
    elif typ in (T8, TE10):
        ts = lambda i: e[L['ts'] + i]; ti = lambda i: e[L['ti'] + i]; tx = lambda i: e[L['tx'] + i]; tm = lambda i: e[L['tm'] + i]
        if not sm.Sz[r][c]: acc = acc - ts(r) * s_(r, c)
        if r == c: acc = acc - ti(r)
        for i in range(cols):
            if not sm.Sz[i][c]: acc = acc + m_(r, i) * tx(i) * s_(i, c)
        acc = acc + m_(r, c) * tm(c)
    elif typ in (U16,):
        um = lambda i, j: e[L['ts'] + i * rows + j]; ui = lambda i, j: e[L['ti'] + i * cols + j]
        ux = lambda i, j: e[L['tx'] + i * rows + j]; us = lambda i, j: e[L['tm'] + i * cols + j]
        for j in range(rows): acc = acc + um(r, j) * m_(j, c)
        acc = acc + ui(r, c)
        for i in range(P):
            if sm.Sz[r][i]: continue
            inner = us(i, c)
            for j in range(rows): inner = inner + ux(i, j) * m_(j, c)
            acc = acc - s_(r, i) * inner
    elif typ in (U8, UE10):
        um = lambda i: e[L['ts'] + i]; ui = lambda i: e[L['ti'] + i]; ux = lambda i: e[L['tx'] + i]; us = lambda i: e[L['tm'] + i]
        acc = acc + um(r) * m_(r, c)
        if r == c: acc = acc + ui(r)
        for i in range(rows):
            if not sm.Sz[r][i]: acc = acc - s_(r, i) * ux(i) * m_(i, c)
        if not sm.Sz[r][c]: acc = acc - s_(r, c) * us(c)
    else:   # UE14 column system c: e is that column's u-vector
        um = lambda i: e[L['ts'] + i]; ui = e[L['ti']]; ux = lambda i: e[L['tx'] + i]; us = e[L['tm']]
        acc = acc + um(r) * m_(r, c)
        if r == c: acc = acc + ui
        for i in range(rows):
            if not sm.Sz[r][i]: acc = acc - s_(r, i) * ux(i) * m_(i, c)
        if not sm.Sz[r][c]: acc = acc - s_(r, c) * us
    return acc, ok[0]


def eq_domain(cfg):
    typ, rows, cols, P = cfg.typ, cfg.rows, cfg.cols, cfg.ports
    if typ in IS_T: return [(r, c) for r in range(rows) for c in range(P)]
    return [(r, c) for r in range(P) for c in range(cols)]


def unity_index(typ, L, sysidx):
    if typ in IS_T: return L['tm']
    if typ in (U8, UE10, U16): return 0
    return sysidx


# ---------------------------------------------------------------------------------------------------------------------
# the flow on the real code

class Flow:
    def __init__(s, mod, symbolic=True, approx=False, alloc_fail_at=None):
        import irx
        from irx import XInterp, NULL
        s.irx = irx
        s.it = XInterp(mod, approx=approx)
        s.it.alloc_fail_at = alloc_fail_at
        s.captured = []          # (caller, A, b, xs)
        s.capture = False
        s.solver = None          # callable(A, b, m, n) -> list of C (x) ; default fresh symbols
        s.it.hooks['_vnacal_error'] = s._err
        s.it.hooks['_vnacommon_mldivide'] = s._mldivide
        s.it.hooks['_vnacommon_qrsolve'] = s._qrsolve
        s.symbolic = symbolic
        s.nsym = 0
        s.xname = None         # optional: capture index -> name stem of the fresh solution symbols

    # hooks
    def _err(s, it, a):
        cat = a[1]; msg = it.cstr(a[2])
        it.errors.append((cat, msg))
        it.set_errno({0: it.get_errno(), 1: 22, 2: 71, 3: 22, 4: 74, 5: 33}.get(cat, 22) if False else s._errno_of(cat, it))
        return None

    @staticmethod
    def _errno_of(cat, it):
        # vnaerr(3): SYSTEM keeps errno, USAGE EINVAL, VERSION ENOPROTOOPT, SYNTAX EBADMSG, WARNING unchanged, MATH EDOM, INTERNAL ENOSYS
        return {0: it.get_errno(), 1: 22, 2: 92, 3: 74, 4: it.get_errno(), 5: 33, 6: 38}.get(cat, 22)

    def _rdmat(s, it, p, m, n):
        from irparse import TFloat
        from irsym import Ptr
        D = TFloat('double')
        return [[C(it.load(Ptr(p.obj, p.off + 16 * (i * n + j)), D), it.load(Ptr(p.obj, p.off + 16 * (i * n + j) + 8), D)) for j in range(n)] for i in range(m)]

    def _wrvec(s, it, p, xs):
        from irsym import Ptr
        for j, x in enumerate(xs):
            it.store(Ptr(p.obj, p.off + 16 * j), x.re, 8); it.store(Ptr(p.obj, p.off + 16 * j + 8), x.im, 8)

    def _solve(s, it, x, A, b, m, n):
        Am = s._rdmat(it, A, m, n); bv = [r[0] for r in s._rdmat(it, b, m, 1)]
        k = len(s.captured)
        if s.solver is not None: xs = s.solver(Am, bv, m, n)
        else: xs = [csym('x%s_%d' % (s.xname(k) if s.xname else k, j)) for j in range(n)]
        s.captured.append((Am, bv, xs))
        if xs is None: return False
        s._wrvec(it, x, xs)
        return True

    def _mldivide(s, it, a):
        from irx import sgn
        from irsym import Rat
        if not s.capture: return it.run(it.m.funcs['@_vnacommon_mldivide'], a)
        x, A, b, n, m = a
        n = sgn(n, 32); m = sgn(m, 32)
        assert m == 1
        ok = s._solve(it, x, A, b, n, n)
        return (Rat.const(1.0 if ok else 0.0), Rat.const(0.0))

    def _qrsolve(s, it, a):
        from irx import sgn
        if not s.capture: return it.run(it.m.funcs['@_vnacommon_qrsolve'], a)
        x, A, b, m, n, o = a
        m = sgn(m, 32); n = sgn(n, 32); assert sgn(o, 32) == 1
        ok = s._solve(it, x, A, b, m, n)
        return n if ok else 0

    # inputs
    def cvec(s, vals):
        from irsym import Ptr
        p = s.it.alloc(None, 16 * len(vals), 'input')
        for i, v in enumerate(vals):
            s.it.store(Ptr(p.obj, 16 * i), v.re, 8); s.it.store(Ptr(p.obj, 16 * i + 8), v.im, 8)
        return p

    def pvec(s, ptrs):
        from irsym import Ptr
        p = s.it.alloc(None, 8 * max(1, len(ptrs)), 'input')
        for i, q in enumerate(ptrs): s.it.store(Ptr(p.obj, 8 * i), q, 8)
        return p

    def ivec(s, vals):
        from irsym import Ptr
        p = s.it.alloc(None, 4 * max(1, len(vals)), 'input')
        for i, v in enumerate(vals): s.it.store(Ptr(p.obj, 4 * i), v & 0xffffffff, 4)
        return p

    def dvec(s, vals):
        from irsym import Ptr, Rat
        p = s.it.alloc(None, 8 * max(1, len(vals)), 'input')
        for i, v in enumerate(vals): s.it.store(Ptr(p.obj, 8 * i), v if isinstance(v, Rat) else Rat.const(Fraction(v)), 8)
        return p

    def cmatrix(s, cells, F=1):
        """cells: list (row-major) of lists (per frequency) of C -> double complex *const * argument"""
        return s.pvec([s.cvec(c) for c in cells])

    def call(s, name, args):
        f = s.it.m.funcs.get('@' + name)
        if f is not None and len(args) > len(f.pnames):          # variadic: the extra arguments travel as the va_list
            k = len(f.pnames); return s.it.call('@' + name, list(args[:k]), list(args[k:]))
        return s.it.call('@' + name, args)

    def icall(s, name, args):
        from irx import sgn
        return sgn(s.call(name, args) & 0xffffffff, 32)

    # API
    def create(s):
        from irx import NULL
        s.vcp = s.call('vnacal_create', [NULL, NULL]); return s.vcp

    def new_alloc(s, typ, rows, cols, F=1):
        s.vnp = s.call('vnacal_new_alloc', [s.vcp, typ & 0xffffffff, rows, cols, F]); s.F = F
        return s.vnp

    def set_frequencies(s, fv):
        return s.icall('vnacal_new_set_frequency_vector', [s.vnp, s.dvec(fv)])

    def scalar_parameter(s, v):
        return s.icall('vnacal_make_scalar_parameter', [s.vcp, v.re, v.im])

    def solve(s):
        s.capture = True
        try: return s.icall('vnacal_new_solve', [s.vnp])
        finally: s.capture = False


def param_handle(flow, spec, cache, val):
    if isinstance(spec, str): return PRE[spec][0]
    if spec not in cache:
        if spec[0] == 'unk':        # unknown parameter: the initial guess is a scalar parameter near the true value
            h0 = flow.scalar_parameter(val(spec, None) + cconst(Fraction(1, 64), Fraction(-1, 128)))
            cache[spec] = flow.icall('vnacal_make_unknown_parameter', [flow.vcp, h0])
        else:
            cache[spec] = flow.scalar_parameter(val(spec, None))
    return cache[spec]


def add_standard(flow, cfg, st, k, mvals, avals, handles, val):
    """issue the vnacal_new_add_* call; mvals: row-major br x bc list of C (the m or b matrix), avals: a matrix or None"""
    from irx import NULL
    rows, cols = cfg.rows, cfg.cols
    br = st.brows if st.brows is not None else rows
    bc = st.bcols if st.bcols is not None else cols
    multi = bool(mvals) and isinstance(mvals[0], list)       # per-frequency lists
    b = flow.cmatrix([list(v) for v in mvals] if multi else [[v] for v in mvals])
    h = lambda spec: param_handle(flow, spec, handles, val)
    if st.form in ('ab', 'abc', 'abk'):
        if cfg.typ in (UE14, E12): ar, ac = 1, bc
        else: ar, ac = bc, bc
        a = flow.cmatrix([list(v) for v in avals] if multi else [[v] for v in avals])
        pre = [flow.vnp, a, ar, ac, b, br, bc]; sfx = ''
    else:
        pre = [flow.vnp, b, br, bc]; sfx = '_m'
    if st.kind == 'single':
        return flow.icall('vnacal_new_add_single_reflect' + sfx, pre + [h(st.sp[0]), st.ports[0]])
    if st.kind == 'double':
        return flow.icall('vnacal_new_add_double_reflect' + sfx, pre + [h(st.sp[0]), h(st.sp[1]), st.ports[0], st.ports[1]])
    if st.kind == 'through':
        return flow.icall('vnacal_new_add_through' + sfx, pre + [st.ports[0], st.ports[1]])
    if st.kind == 'line':
        return flow.icall('vnacal_new_add_line' + sfx, pre + [flow.ivec([h(x) for x in st.sp]), st.ports[0], st.ports[1]])
    pm = NULL if st.map_null else flow.ivec(st.ports)
    return flow.icall('vnacal_new_add_mapped_matrix' + sfx, pre + [flow.ivec([h(x) for x in st.sp]), st.s_rows, st.s_cols, pm])


def read_error_terms(flow, n_terms, findex=0):
    """the error terms stored in vnp->vn_calibration (cal_error_term_vector[term][findex])"""
    from irparse import TFloat, TPtr, TInt
    from irsym import Ptr
    it = flow.it; m = it.m
    vn_t = m.resolve(m.funcs['@vnacal_new_solve'].ftype.args[0].to)
    # locate vn_calibration: the member of type %struct.vnacal_calibration*
    idx = None
    for i, e in enumerate(vn_t.els):
        if isinstance(e, TPtr) and getattr(e.to, 'name', '').endswith('struct.vnacal_calibration'): idx = i
    calp = it.load(Ptr(flow.vnp.obj, flow.vnp.off + m.field_offset(vn_t, idx)), vn_t.els[idx])
    if calp.obj is None: return None
    flow.calp = calp
    return read_terms_of_calibration(it, calp, n_terms, findex, vn_t.els[idx].to)


def read_terms_of_calibration(it, calp, n_terms, findex=0, cal_named=None):
    """cal_error_term_vector[term][findex] of a vnacal_calibration_t"""
    from irparse import TFloat, TPtr, TInt
    from irsym import Ptr
    m = it.m
    if cal_named is None: cal_named = m.funcs['@_vnacal_calibration_free'].ftype.args[0].to
    cal_t = m.resolve(cal_named)
    # cal_error_term_vector: the only double complex ** member ({double,double}**)
    vidx = None
    for i, e in enumerate(cal_t.els):
        if isinstance(e, TPtr) and isinstance(e.to, TPtr) and isinstance(m.resolve(e.to.to), type(cal_t)) and len(m.resolve(e.to.to).els) == 2: vidx = i
    vecp = it.load(Ptr(calp.obj, calp.off + m.field_offset(cal_t, vidx)), cal_t.els[vidx])
    D = TFloat('double')
    out = []
    for t in range(n_terms):
        tp = it.load(Ptr(vecp.obj, vecp.off + 8 * t), TPtr(TInt(8)))
        out.append(C(it.load(Ptr(tp.obj, tp.off + 16 * findex), D), it.load(Ptr(tp.obj, tp.off + 16 * findex + 8), D)))
    return out


# ---------------------------------------------------------------------------------------------------------------------
# symbolic check of one configuration

def _key(c):
    import z3
    def k(r):
        if r.isconst(): return 'c%s' % r.value()
        n = z3.simplify(r.z3num(), som=True); d = r.d if isinstance(r.d, Fraction) else z3.simplify(r.d, som=True)
        return '%s/%s' % (n.sexpr(), d if isinstance(d, Fraction) else d.sexpr())
    return k(c.re) + '|' + k(c.im)


def oracle_measurements(cfg, st, k, sm, symbolic=True, rnd=None, mvalue=None):
    """returns (mvals row-major br x bc to pass as m / b, avals or None, Mfull rows x cols with None for cells not given)
       mvalue(r, c) -> C overrides the measured M (concrete runs)"""
    rows, cols = cfg.rows, cfg.cols
    br, bc = sm.br, sm.bc
    Mfull = [[None] * cols for _ in range(rows)]
    if mvalue is not None: Mb = [[mvalue(sm.rowmap[i], sm.colmap[j]) for j in range(bc)] for i in range(br)]
    else: Mb = [[csym('m%d_%d%d' % (k, i, j)) for j in range(bc)] for i in range(br)]
    avals = None
    kscale = None
    if st.form in ('ab', 'abc', 'abk'):
        if st.form == 'abk' and symbolic: kscale = csym('k%d' % k)      # constant matrix times a free complex scale factor
        if st.form in ('abc', 'abk'):       # constant, well-conditioned reference matrix: no pivot forks in the library's B A^-1
            symbolic = False
            import random as _r
            rnd = rnd or _r.Random(1000 + k)
        if cfg.typ in (UE14, E12):
            if symbolic: A = [csym('a%d_%d' % (k, j)) for j in range(bc)]
            else: A = [cconst(rnd.randint(1, 9), rnd.randint(-9, 9)) / cconst(7) for j in range(bc)]
            if mvalue is None:
                B = [[csym('b%d_%d%d' % (k, i, j)) for j in range(bc)] for i in range(br)]
                Mb = [[B[i][j] / A[j] for j in range(bc)] for i in range(br)]
            else:
                B = [[Mb[i][j] * A[j] for j in range(bc)] for i in range(br)]
            if kscale is not None:
                A = [v * kscale for v in A]; B = [[v * kscale for v in row] for row in B]
            avals = A
        else:
            if symbolic: A = [[csym('a%d_%d%d' % (k, i, j)) for j in range(bc)] for i in range(bc)]
            else: A = [[cconst(rnd.randint(1, 9) + (5 if i == j else 0), rnd.randint(-9, 9)) / cconst(7) for j in range(bc)] for i in range(bc)]
            if mvalue is None:
                B = [[csym('b%d_%d%d' % (k, i, j)) for j in range(bc)] for i in range(br)]
                Mb = mat_mul(B, mat_inv(A))
            else:
                B = mat_mul(Mb, A)
            if kscale is not None:
                A = [[v * kscale for v in row] for row in A]; B = [[v * kscale for v in row] for row in B]
            avals = [A[i][j] for i in range(bc) for j in range(bc)]
        mvals = [B[i][j] for i in range(br) for j in range(bc)]
    else:
        mvals = [Mb[i][j] for i in range(br) for j in range(bc)]
    for i in range(br):
        for j in range(bc): Mfull[sm.rowmap[i]][sm.colmap[j]] = Mb[i][j]
    return mvals, avals, Mfull


def leakage_oracle(cfg, models, Ms):
    """El[r][c] = mean over the standards that give M[r][c] and have no signal path between ports r and c"""
    rows, cols = cfg.rows, cfg.cols
    El = [[cconst(0)] * cols for _ in range(rows)]
    cnt = [[0] * cols for _ in range(rows)]
    if cfg.typ not in HAS_EL: return El, cnt
    for r in range(rows):
        for c in range(cols):
            if r == c: continue
            acc = cconst(0); n = 0
            for sm, M in zip(models, Ms):
                if M[r][c] is not None and not sm.connected[r][c]: acc = acc + M[r][c]; n += 1
            if n: El[r][c] = acc / cconst(n)
            cnt[r][c] = n
    return El, cnt


def leakage_counts(cfg, val):
    """how many standards measure each off-diagonal cell without a signal path (structure only)"""
    cnt = [[0] * cfg.cols for _ in range(cfg.rows)]
    for k, st in enumerate(cfg.stds):
        sm = std_model(cfg, st, k, val)
        for r in sm.rowmap:
            for c in sm.colmap:
                if r != c and r < cfg.rows and c < cfg.cols and not sm.connected[r][c]: cnt[r][c] += 1
    return cnt


def expected_rows(cfg, L, models, Ms, El, evec_for_system, weights=None):
    """list per system of (tag, C residual); weights = (interpreter, (sigma_nf, sigma_tr)): every residual is multiplied by the documented
    weight 1 / sqrt(sigma_nf^2 + sigma_tr^2 |m|^2) of the equation's own measurement cell (sqrt uninterpreted)"""
    typ, rows, cols = cfg.typ, cfg.rows, cfg.cols
    nsys = L['systems']
    out = [[] for _ in range(nsys)]
    for k, (sm, M) in enumerate(zip(models, Ms)):
        Mp = [[None if M[r][c] is None else (M[r][c] - El[r][c] if (r != c and typ in HAS_EL) else M[r][c]) for c in range(cols)] for r in range(rows)]
        for (r, c) in eq_domain(cfg):
            if typ not in (T16, U16) and not sm.connected[r][c]: continue
            sysi = c if typ in COLSYS else 0
            res, ok = residual(cfg, L, sm, Mp, evec_for_system(sysi), r, c, sysi)
            wsq = None
            if ok and weights is not None:
                import irx
                it_, (nf, tr) = weights
                m_ = Mp[r][c] if (r < rows and c < cols and Mp[r][c] is not None) else None
                if m_ is None: ok = False
                else:
                    w2 = (m_.re * m_.re + m_.im * m_.im) * (tr * tr) + nf * nf
                    wsq = irx._uf(it_, 'sqrt', [w2])          # the assembled row must be residual / sqrt(w2): compared as row * sqrt(w2) == residual
            if ok: out[sysi].append(('std%d(%d,%d)' % (k, r, c), res) if weights is None else ('std%d(%d,%d)' % (k, r, c), res, wsq))
    return out


def e12_from_ue14(cfg, L, e, El):
    """documented conversion (vnacal_layout.h 'From U terms', normalised so that Et = I), per column"""
    rows, cols = cfg.rows, cfg.cols
    out = []
    ut = L['t_terms']
    for c in range(cols):
        u = e[c * ut:(c + 1) * ut]
        um = u[0:rows]; ui = u[rows]; ux = u[rows + 1:2 * rows + 1]; us = u[2 * rows + 1]
        n = us - ui * ux[c] / um[c]
        el = [(cconst(0) - ui / um[c]) if r == c else El[r][c] for r in range(rows)]
        er = [n / um[r] for r in range(rows)]
        em = [ux[r] / um[r] for r in range(rows)]
        out += el + er + em
    return out


def numeric_refute(exprs, seed=11, tries=3):
    """z3 gave no verdict on 'all of exprs are identically zero': evaluate them in floating point at random rational points with the
    uninterpreted sqrt read as the real square root.  A clearly non-zero value is a genuine counterexample (the real sqrt is one
    interpretation of the uninterpreted function); returns the point or None."""
    import z3, math, random
    rnd = random.Random(seed)
    def ev(e, env):
        if z3.is_rational_value(e): return float(e.as_fraction())
        if z3.is_algebraic_value(e): return float(e.approx(15).as_fraction())
        if z3.is_const(e) and e.decl().kind() == z3.Z3_OP_UNINTERPRETED:
            k = e.decl().name()
            if k not in env: env[k] = (math.sqrt(float(k.split('_')[1]) / float(k.split('_')[2])) if k.startswith('sqrt_') else rnd.randint(-40, 40) / rnd.choice((3.0, 5.0, 7.0, 8.0)))
            return env[k]
        ch = [ev(c, env) for c in e.children()]
        kd = e.decl().kind()
        if kd == z3.Z3_OP_ADD: return sum(ch)
        if kd == z3.Z3_OP_MUL:
            r = 1.0
            for c in ch: r *= c
            return r
        if kd == z3.Z3_OP_SUB: return ch[0] - sum(ch[1:])
        if kd == z3.Z3_OP_UMINUS: return -ch[0]
        if kd == z3.Z3_OP_DIV: return ch[0] / ch[1]
        if kd == z3.Z3_OP_POWER: return ch[0] ** ch[1]
        if kd == z3.Z3_OP_UNINTERPRETED:
            nm = e.decl().name()
            if nm == 'uf_sqrt': return math.sqrt(ch[0]) if ch[0] >= 0 else float('nan')
            raise ValueError(nm)
        raise ValueError(str(e.decl()))
    for t in range(tries):
        env = {}
        try:
            worst = 0.0; scale = 1e-9
            for x in exprs:
                if x.isconst(): v = float(x.value())
                else:
                    n = ev(x.z3num(), env); d = ev(x.z3den(), env)
                    if d == 0 or n != n or d != d: raise ZeroDivisionError
                    v = n / d
                worst = max(worst, abs(v))
            mags = [abs(v) for v in env.values()] or [1.0]
            if worst > 1e-6 * max(1.0, max(mags)): return {k: v for k, v in list(env.items())[:16]}, worst
        except (ValueError, ZeroDivisionError, OverflowError):
            continue
    return None


def irx_NULL():
    from irx import NULL
    return NULL


def symbolic_check(mod, cfg, choices=(), generic=True, holder=None):
    """one path of the symbolic run; raises irsym.Fork on an undecided comparison"""
    import z3, irsym
    from irsym import Rat
    res = {'cfg': cfg.name, 'queries': 0, 'unsat': 0, 'sat': [], 'unknown': [], 'notes': []}
    typ = E12U if cfg.typ == E12 else cfg.typ
    L = layout_doc(typ, cfg.rows, cfg.cols)
    flow = Flow(mod); it = flow.it
    if holder is not None:
        holder['flow'] = flow
        it.unwitnessed = bool(holder.get('unwitnessed'))
    it.choices = list(choices); it.generic = generic
    flow.create(); flow.new_alloc(cfg.typ, cfg.rows, cfg.cols, 1)
    if flow.vnp.obj is None: res['error'] = 'vnacal_new_alloc failed: %s' % it.errors; return res, flow
    assert flow.set_frequencies([Fraction(10 ** 9)]) == 0
    wsym = None
    if getattr(cfg, 'm_error', False):
        # measurement-error model on: noise floor and signal-proportional part are free positive symbols; the p-value test is hooked away
        nf = Rat(z3.Real('sigma_nf')); tr = Rat(z3.Real('sigma_tr'))
        it.path.append(z3.Real('sigma_nf') > 0); it.path.append(z3.Real('sigma_tr') > 0)
        assert flow.icall('vnacal_new_set_m_error', [flow.vnp, irx_NULL(), 1, flow.dvec([nf]), flow.dvec([tr])]) == 0
        it.hooks['_vnacal_new_solve_calc_pvalue'] = lambda it_, a: Rat.const(1.0)
        # over-determined systems iterate on the V matrices until the solution stops moving: the V update is hooked away (V stays at its
        # initial value) and only the paths that take 'converged' at the first test are examined (the others re-assemble the same system)
        it.hooks['_vnacal_new_solve_update_v_matrices'] = lambda it_, a: 0
        assert flow.icall('vnacal_new_set_iteration_limit', [flow.vnp, 2]) == 0
        assert flow.icall('vnacal_new_set_et_tolerance', [flow.vnp, Rat.const(1e30)]) == 0      # the V iteration stops after its first pass
        wsym = (nf, tr)
    symcache = {}
    def val(spec, tag):
        if isinstance(spec, str): return cconst(PRE[spec][1])
        if spec not in symcache: symcache[spec] = csym('p_' + spec[1])
        return symcache[spec]
    handles = {}
    models = []; Ms = []
    for k, st in enumerate(cfg.stds):
        sm = std_model(cfg, st, k, val)
        mvals, avals, Mfull = oracle_measurements(cfg, st, k, sm)
        rc = add_standard(flow, cfg, st, k, mvals, avals, handles, val)
        if rc != 0:
            res['error'] = 'add of standard %d (%s) refused: %s' % (k, st.tag(), it.errors[-1:]); return res, flow
        models.append(sm); Ms.append(Mfull)
    rc = flow.solve()
    res['solve_rc'] = rc; res['errors'] = [(c, m.decode()) for c, m in it.errors]
    unknowns = L['t_terms'] - 1
    res['systems'] = [{'equations': len(A), 'unknowns': unknowns} for A, b, xs in flow.captured]
    if rc != 0:
        res['notes'].append('solve failed: %s' % it.errors[-1:])
        if wsym is not None: res['skipped'] = True
        return res, flow
    nsys = L['systems']
    if len(flow.captured) != nsys and wsym is not None:
        res['notes'].append('V-matrix iteration path (%d solves): not examined' % len(flow.captured)); res['skipped'] = True
        return res, flow
    if len(flow.captured) != nsys:
        res['sat'].append({'q': 'one linear system per column system', 'detail': 'captured %d systems, expected %d' % (len(flow.captured), nsys)}); return res, flow
    # e(x): unity inserted per system, leakage appended
    El, cnt = leakage_oracle(cfg, models, Ms)
    e = []
    for si, (A, b, xs) in enumerate(flow.captured):
        u = unity_index(typ, L, si)
        e += xs[:u] + [cconst(1)] + xs[u:]
    for r in range(cfg.rows):
        for c in range(cfg.cols):
            if r != c and typ in (TE10, UE10, UE14, E12U): e.append(El[r][c])
    ut = L['t_terms']
    exp = expected_rows(cfg, L, models, Ms, El, lambda si: e[si * ut:(si + 1) * ut] if typ in (UE14, E12U) else e, weights=(it, wsym) if wsym else None)
    # --- soundness + completeness, per system
    def prove_zero(cs, what):
        ex = []
        for c_ in cs: ex += [c_.re, c_.im]
        if wsym is not None:
            # identities with the uninterpreted sqrt: z3 proves the true ones at once but can run for minutes on a false one - a floating
            # point evaluation at random points (sqrt read as the real square root) refutes those first; only z3 can accept
            nr = numeric_refute(ex)
            if nr is not None:
                res['queries'] += 1
                res['sat'].append({'q': what, 'model': nr[0], 'numeric_difference': nr[1], 'note': 'refuted numerically with sqrt read as the real square root'}); return False
        st_, mdl = irsym.check_zero(it, ex, timeout_ms=60000)
        res['queries'] += 1
        if st_ == 'unsat': res['unsat'] += 1; return True
        if st_ == 'sat':
            res['sat'].append({'q': what, 'model': {d.name(): str(mdl[d]) for d in mdl.decls()}}); return False
        nr = numeric_refute(ex)
        if nr is not None:
            res['sat'].append({'q': what, 'model': nr[0], 'numeric_difference': nr[1], 'note': 'z3 undecided; refuted numerically with sqrt read as the real square root'}); return False
        res['unknown'].append({'q': what, 'why': str(mdl)}); return None
    for si, (A, b, xs) in enumerate(flow.captured):
        rows_ = []
        for i in range(len(A)):
            acc = cconst(0) - b[i]
            for j in range(len(xs)):
                if not A[i][j].iszero(): acc = acc + A[i][j] * xs[j]
            rows_.append(acc)
        if wsym is not None:
            # weighted systems: row_i * sqrt(w2_tag) == +/- residual_tag; the expected order is the library's equation order, tried first
            used = set()
            for i, r_ in enumerate(rows_):
                order = [x for x in exp[si][i:i + 1] + exp[si] if x[0] not in used]
                hit = None; n_unk0 = len(res['unknown'])
                for tag, er, wq in order:
                    rw = C(r_.re * wq, r_.im * wq)
                    for sg in (+1, -1):
                        if prove_zero([(rw - er) if sg > 0 else (rw + er)], 'system %d row %d * sqrt(sigma_nf^2 + sigma_tr^2 |m|^2) == %s residual %s' % (si, i, '+' if sg > 0 else '-', tag)):
                            hit = tag; break
                        if res['sat'] and res['sat'][-1].get('q', '').startswith('system %d row %d *' % (si, i)): res['sat'].pop()
                    if hit: break
                if hit is None and len(res['unknown']) == n_unk0:
                    res['sat'].append({'q': 'weights: system %d row %d is a documented residual cell times the documented weight of its own measurement' % (si, i), 'row': _key(r_)[:400]})
                elif hit is not None: used.add(hit)
            missing = [x[0] for x in exp[si] if x[0] not in used]
            if missing and not res['unknown']:
                res['sat'].append({'q': 'completeness: system %d uses every documented residual cell whose factors are all known' % si, 'missing': missing})
            continue
        ekeys = {}
        for tag, r_ in exp[si]:

            ekeys.setdefault(_key(r_), []).append((tag, r_, +1)); ekeys.setdefault(_key(-r_), []).append((tag, r_, -1))
        used = set()
        for i, r_ in enumerate(rows_):
            cands = [x for x in ekeys.get(_key(r_), []) if x[0] not in used]
            hit = None; n_unk0 = len(res['unknown'])
            for tag, er, sg in cands:
                d = (r_ - er) if sg > 0 else (r_ + er)
                if prove_zero([d], 'system %d row %d == %s documented residual %s' % (si, i, '+' if sg > 0 else '-', tag)):
                    hit = tag; break
            if hit is None and not cands:
                # no syntactic candidate: ask z3 against every unused documented cell before calling it unsound
                for tag, er in exp[si]:
                    if tag in used: continue
                    for sg in (+1, -1):
                        d = (r_ - er) if sg > 0 else (r_ + er)
                        ex = [d.re, d.im]
                        st_, mdl = irsym.check_zero(it, ex, timeout_ms=20000); res['queries'] += 1
                        if st_ == 'unsat': res['unsat'] += 1; hit = tag; break
                        if st_ == 'unknown': res['unknown'].append({'q': 'system %d row %d vs %s' % (si, i, tag), 'why': str(mdl)})
                    if hit: break
            if hit is None and len(res['unknown']) > n_unk0:
                pass        # some comparison was not decided: the row is reported as unknown, not as a violation
            elif hit is None:
                res['sat'].append({'q': 'soundness: system %d row %d is a documented residual cell of some standard' % (si, i),
                                   'row': _key(r_)[:600], 'expected_cells': [t for t, _ in exp[si]]})
            else: used.add(hit)
        missing = [t for t, _ in exp[si] if t not in used]
        if missing and not res['unknown']:
            res['sat'].append({'q': 'completeness: system %d uses every documented residual cell whose factors are all known' % si, 'missing': missing})
    # --- placement of the stored error terms
    n_out = len(e) if cfg.typ != E12 else 3 * cfg.rows * cfg.cols
    stored = read_error_terms(flow, n_out)
    want = e if cfg.typ != E12 else e12_from_ue14(cfg, L, e, El)
    from irx import Special
    if stored is None or len(stored) != len(want):
        res['sat'].append({'q': 'placement: calibration holds %d error terms' % len(want), 'detail': 'none' if stored is None else len(stored)})
    elif any(isinstance(v.re, Special) or isinstance(v.im, Special) for v in stored):
        res['sat'].append({'q': 'placement: every stored error term is a finite number', 'detail': 'non-finite stored terms at indices %s' %
                           [i for i, v in enumerate(stored) if isinstance(v.re, Special) or isinstance(v.im, Special)]})
    else:
        prove_zero([a - b_ for a, b_ in zip(stored, want)], 'placement: stored error terms == documented e(x) (unity inserted, leakage appended%s)' % (', E12 conversion' if cfg.typ == E12 else ''))
    res['steps'] = it.steps; res['funcs'] = sorted(it.funcs_run)
    res['generic_assumed'] = [str(c)[:120] for c in it.generic_assumed]
    res['unexplored'] = [str(c)[:160] for c in it.unexplored]
    if getattr(it, 'unwitnessed', False):
        # no evaluation point and no z3 verdict showed this combination of branch outcomes to be satisfiable: the queries above may be
        # vacuous, and generic decisions on it were taken without a witness -> report, never count as decided
        res['unknown'].append({'q': 'path feasibility', 'why': 'no witness point for the branch combination %s' % (list(choices),)})
    return res, flow


def symbolic_all_paths(mod, cfg, max_paths=16, generic=True):
    """every feasible path of the symbolic run.  generic=True: symbolic equality tests take the '!=' branch (the set where two
    free values coincide is outside the claim and listed per path as 'generic_assumed'); order comparisons fork."""
    import z3, irsym, irx
    todo = [[]]; results = []; unwitnessed = set()
    while todo:
        ch = todo.pop()
        holder = {'unwitnessed': any(tuple(ch[:i]) in unwitnessed for i in range(len(ch) + 1))}
        try:
            r, flow = symbolic_check(mod, cfg, ch, generic=generic, holder=holder)
        except irx.PathInfeasible:
            continue
        except irsym.Fork as fk:
            it = holder['flow'].it
            for b in (True, False):
                c_ = z3.simplify(fk.cond if b else z3.Not(fk.cond))
                fz = it._feasible(c_)
                if fz == 'sat': todo.append(ch + [b])
                elif fz != 'unsat': todo.append(ch + [b]); unwitnessed.add(tuple(ch + [b]))
            continue
        r['path'] = ch
        results.append(r)
        if len(results) > max_paths: raise RuntimeError('too many paths')
    return results


# ---------------------------------------------------------------------------------------------------------------------
# C17: two descriptions of the same physical information, run on the real code with the SAME symbols

def capture_run(mod, cfg, choices=(), holder=None, pre=None, tag='', freq_ids=(0,), xoff=0):
    """the calibrate flow with measurement symbols named by physical standard (sid) and full-matrix cell, so that two
    descriptions of the same information share their symbols.  a/b forms pass b = M a (a symbolic / scaled / constant).
    Returns dict(systems=[(rows as C polynomials A_i x - b_i)], stored=[C], solve_rc, errors, it)"""
    import irsym
    typ = E12U if cfg.typ == E12 else cfg.typ
    L = layout_doc(typ, cfg.rows, cfg.cols)
    flow = Flow(mod); it = flow.it
    if holder is not None: holder['flow'] = flow
    it.choices = list(choices); it.generic = True
    flow.create()
    if pre is not None: pre(flow)           # e.g. an unrelated calibration built first on the same vnacal_t
    F = len(freq_ids)
    flow.new_alloc(cfg.typ, cfg.rows, cfg.cols, F)
    out = {'it': it, 'flow': flow, 'systems': [], 'stored': None, 'error': None}
    if flow.vnp.obj is None: out['error'] = 'vnacal_new_alloc failed: %s' % it.errors; return out
    assert flow.set_frequencies([Fraction(10 ** 9) * (1 + fi) for fi in freq_ids]) == 0
    symcache = {}
    def val(spec, tag_):
        if isinstance(spec, str): return cconst(PRE[spec][1])
        if spec not in symcache: symcache[spec] = csym('p_' + spec[1])
        return symcache[spec]
    handles = {}
    for k, st in enumerate(cfg.stds):
        sm = std_model(cfg, st, k, val)
        sid = st.sid if st.sid is not None else 'x%d' % k
        per_f = []
        for fi in freq_ids:
            mv = lambda r, c, sid=sid, fi=fi: csym('m%s_%d%d%s' % (sid, r, c, '' if fi == 0 else '_f%d' % fi))
            per_f.append(oracle_measurements(cfg, st, k + (0 if tag != 'y' else 100) + 1000 * fi, sm, symbolic=True, mvalue=mv))
        if F == 1: mvals, avals = per_f[0][0], per_f[0][1]
        else:
            mvals = [[pf[0][i] for pf in per_f] for i in range(len(per_f[0][0]))]
            avals = None if per_f[0][1] is None else [[pf[1][i] for pf in per_f] for i in range(len(per_f[0][1]))]
        rc = add_standard(flow, cfg, st, k, mvals, avals, handles, val)
        if rc != 0:
            out['error'] = 'add of standard %d (%s) refused: %s' % (k, st.tag(), it.errors[-1:]); return out
    n0 = len(flow.captured)
    flow.xname = lambda k_: k_ - n0 + xoff
    rc = flow.solve()
    out['solve_rc'] = rc; out['errors'] = [(c, m.decode()) for c, m in it.errors]
    for (A, b, xs) in flow.captured[n0:]:
        rows_ = []
        for i in range(len(A)):
            acc = cconst(0) - b[i]
            for j in range(len(xs)):
                if not A[i][j].iszero(): acc = acc + A[i][j] * xs[j]
            rows_.append(acc)
        out['systems'].append(rows_)
    if rc == 0:
        n_out = L['el'] + L['el_terms'] if cfg.typ != E12 else 3 * cfg.rows * cfg.cols
        out['stored'] = []
        for f in range(F): out['stored'] += read_error_terms(flow, n_out, f)
    return out


def all_paths(run, max_paths=32):
    """run(choices, holder) -> result; explores every feasible combination of undecided order comparisons"""
    import z3, irsym, irx
    todo = [[]]; results = []
    while todo:
        ch = todo.pop()
        holder = {}
        try:
            r = run(ch, holder)
        except irx.PathInfeasible:
            continue
        except irsym.Fork as fk:
            it = holder['flow'].it
            for b in (True, False):
                c_ = z3.simplify(fk.cond if b else z3.Not(fk.cond))
                if it._feasible(c_) != 'unsat': todo.append(ch + [b])
            continue
        r['path'] = ch
        results.append(r)
        if len(results) > max_paths: raise RuntimeError('too many paths')
    return results


def compare_runs(rx, ry, res, what):
    """z3: under both path conditions the two runs hand the same equations (as multisets, up to sign) to the solver in every
    system and store the same error terms"""
    import z3, irsym
    class Both:      # check_zero wants an object with dens / path
        pass
    bt = Both(); bt.dens = list(rx['it'].dens) + list(ry['it'].dens); bt.path = list(rx['it'].path) + list(ry['it'].path)
    def zero(cs, q):
        ex = []
        for c_ in cs: ex += [c_.re, c_.im]
        st_, mdl = irsym.check_zero(bt, ex, timeout_ms=60000)
        if st_ == 'unsat': res['queries'] += 1; res['unsat'] += 1; return True
        if st_ == 'sat': return False          # a candidate pairing that does not hold is not an obligation: the row is tried against the next candidate
        res['queries'] += 1
        res['unknown'].append({'q': q, 'why': str(mdl)}); return None
    if (rx.get('solve_rc'), ry.get('solve_rc')) != (0, 0):
        if rx.get('solve_rc') != ry.get('solve_rc'):
            res['sat'].append({'q': what + ': both descriptions solve alike', 'detail': 'solve rc %s vs %s; %s | %s' % (rx.get('solve_rc'), ry.get('solve_rc'), rx.get('errors'), ry.get('errors'))})
        return
    if len(rx['systems']) != len(ry['systems']):
        res['sat'].append({'q': what + ': same number of linear systems', 'detail': '%d vs %d' % (len(rx['systems']), len(ry['systems']))}); return
    for si, (X, Y) in enumerate(zip(rx['systems'], ry['systems'])):
        if len(X) != len(Y):
            res['sat'].append({'q': what + ': system %d has the same number of equations' % si, 'detail': '%d vs %d' % (len(X), len(Y))}); continue
        keys = {}
        for j, r_ in enumerate(Y):
            keys.setdefault(_key(r_), []).append((j, +1)); keys.setdefault(_key(-r_), []).append((j, -1))
        used = set()
        for i, r_ in enumerate(X):
            hit = None; n0 = len(res['unknown'])
            cands = [(j, sg) for j, sg in keys.get(_key(r_), []) if j not in used]
            order = cands + [(j, sg) for j in range(len(Y)) if j not in used for sg in (+1, -1) if (j, sg) not in cands]
            for j, sg in order:
                d = (r_ - Y[j]) if sg > 0 else (r_ + Y[j])
                if zero([d], '%s: system %d equation %d of the first == %s equation %d of the second' % (what, si, i, '+' if sg > 0 else '-', j)):
                    hit = j; break
            if hit is None:
                if len(res['unknown']) == n0:
                    res['sat'].append({'q': '%s: system %d equation %d of the first description appears in the second' % (what, si, i), 'row': _key(r_)[:400]})
            else: used.add(hit)
    if rx['stored'] is not None and ry['stored'] is not None:
        if len(rx['stored']) != len(ry['stored']):
            res['sat'].append({'q': what + ': same number of stored error terms', 'detail': '%d vs %d' % (len(rx['stored']), len(ry['stored']))})
        else:
            from irx import Special
            bad = [i for i, (a, b_) in enumerate(zip(rx['stored'], ry['stored'])) if isinstance(a.re, Special) != isinstance(b_.re, Special)]
            if bad: res['sat'].append({'q': what + ': stored error terms finite alike', 'detail': bad})
            else:
                prs = [(a, b_) for a, b_ in zip(rx['stored'], ry['stored']) if not isinstance(a.re, Special)]
                ok = zero([a - b_ for a, b_ in prs], what + ': stored error terms are identical')
                if ok is False: res['sat'].append({'q': what + ': stored error terms are identical (same solver result x)'})


def unrelated_pre(flow):
    """an unrelated calibration (other type, other shape, own user parameters, solved and installed) on the same vnacal_t"""
    from irx import NULL
    keep = (flow.vnp if hasattr(flow, 'vnp') else None)
    vcp = flow.vcp
    other = Config(UE10, 1, 1, [Std('single', [1], [('sym', 'uq0')]), Std('single', [1], ['open']), Std('single', [1], ['match'])])
    flow.new_alloc(other.typ, 1, 1, 1)
    assert flow.set_frequencies([Fraction(7 * 10 ** 8)]) == 0
    hs = {}
    def val(spec, tag_): return cconst(PRE[spec][1]) if isinstance(spec, str) else csym('p_' + spec[1])
    for k, st in enumerate(other.stds):
        sm = std_model(other, st, k, val)
        mvals, avals, Mfull = oracle_measurements(other, st, 500 + k, sm, symbolic=True, mvalue=lambda r, c, k=k: csym('mu%d_%d%d' % (k, r, c)))
        assert add_standard(flow, other, st, k, mvals, avals, hs, val) == 0
    flow.xname = lambda k_: 'u%d' % k_
    assert flow.solve() == 0
    assert flow.icall('vnacal_add_calibration', [vcp, flow.it.static_str(b'unrelated'), flow.vnp]) >= 0
    flow.scalar_parameter(csym('p_unused'))       # one more live user parameter in the collection


def pair_worker(mod, job):
    """job: {'id', 'tier', 'x': config name, 'y': config name | None, 'mode': 'pair' | 'unrelated' | 'freqsplit'}"""
    from props import calcfg
    import irx
    cx = calcfg.by_name(job['x'], job['tier'])
    mode = job.get('mode', 'pair')
    cy = calcfg.by_name(job['y'], job['tier']) if mode == 'pair' else cx
    res = {'id': job['id'], 'paths': 0, 'queries': 0, 'unsat': 0, 'sat': [], 'unknown': [], 'fault': None, 'funcs': [], 'generic_assumed': 0, 'unexplored': []}
    try:
        if mode == 'pair':
            RX = all_paths(lambda ch, h: capture_run(mod, cx, ch, h, tag='x'))
            RY = all_paths(lambda ch, h: capture_run(mod, cy, ch, h, tag='y'))
        elif mode == 'unrelated':
            RX = all_paths(lambda ch, h: capture_run(mod, cx, ch, h, tag='x'))
            RY = all_paths(lambda ch, h: capture_run(mod, cx, ch, h, tag='x', pre=unrelated_pre))
        else:
            nsys = cx.cols if cx.typ in COLSYS else 1
            RX = all_paths(lambda ch, h: capture_run(mod, cx, ch, h, tag='x', freq_ids=(0, 1)))
            R0 = all_paths(lambda ch, h: capture_run(mod, cx, ch, h, tag='x', freq_ids=(0,)))
            R1 = all_paths(lambda ch, h: capture_run(mod, cx, ch, h, tag='x', freq_ids=(1,), xoff=nsys))
            RY = []
            for r0 in R0:
                for r1 in R1:
                    class _It: pass
                    it2 = _It(); it2.dens = list(r0['it'].dens) + list(r1['it'].dens); it2.path = list(r0['it'].path) + list(r1['it'].path)
                    it2.funcs_run = set(r0['it'].funcs_run) | set(r1['it'].funcs_run); it2.generic_assumed = r0['it'].generic_assumed + r1['it'].generic_assumed
                    it2.unexplored = r0['it'].unexplored + r1['it'].unexplored
                    RY.append({'it': it2, 'error': r0['error'] or r1['error'], 'solve_rc': r0.get('solve_rc') or r1.get('solve_rc'),
                               'errors': (r0.get('errors') or []) + (r1.get('errors') or []), 'systems': r0['systems'] + r1['systems'],
                               'stored': None if (r0['stored'] is None or r1['stored'] is None) else r0['stored'] + r1['stored']})
    except (irx.MemFault, irx.LibAbort) as e:
        res['fault'] = '%s: %s' % (type(e).__name__, e); return res
    funcs = set()
    for rx in RX:
        for ry in RY:
            res['paths'] += 1
            for r in (rx, ry):
                if r['error']: res['sat'].append({'q': 'the documented call sequence is accepted', 'detail': r['error']})
            if rx['error'] or ry['error']: continue
            compare_runs(rx, ry, res, '%s ~ %s' % (cx.name, cy.name))
    for r in RX + RY:
        funcs.update(r['it'].funcs_run); res['generic_assumed'] = max(res['generic_assumed'], len(r['it'].generic_assumed))
        res['unexplored'] += [str(c)[:160] for c in r['it'].unexplored]
    res['funcs'] = sorted(funcs)
    res['equations'] = [len(x) for x in RX[0]['systems']] if RX else None
    return res


# ---------------------------------------------------------------------------------------------------------------------
# exact rational end-to-end run at a generic point (determinacy witness + translator validation)

def _rc(rnd, scale=16, lo=-9, hi=9):
    return cconst(Fraction(rnd.randint(lo, hi), scale), Fraction(rnd.randint(lo, hi), scale))


def true_terms(cfg, rnd):
    """random error terms near the ideal network, in the documented layout (before normalisation)"""
    typ = E12U if cfg.typ == E12 else cfg.typ
    rows, cols, P = cfg.rows, cfg.cols, cfg.ports
    L = layout_doc(typ, rows, cols)
    one = cconst(1)
    e = []
    if typ in (T16, U16):
        dims = {T16: [(rows, P, 1), (rows, P, 0), (cols, P, 0), (cols, P, 1)], U16: [(P, rows, 1), (P, cols, 0), (P, rows, 0), (P, cols, 1)]}[typ]
        for (r_, c_, ident) in dims:
            for i in range(r_):
                for j in range(c_): e.append((one if (ident and i == j) else cconst(0)) + _rc(rnd, 32))
    elif typ in (T8, TE10):
        for n_, ident in ((rows, 1), (rows, 0), (cols, 0), (cols, 1)):
            for i in range(n_): e.append((one if ident else cconst(0)) + _rc(rnd, 32))
    elif typ in (U8, UE10):
        for n_, ident in ((rows, 1), (cols, 0), (rows, 0), (cols, 1)):
            for i in range(n_): e.append((one if ident else cconst(0)) + _rc(rnd, 32))
    else:
        for c in range(cols):
            for n_, ident in ((rows, 1), (1, 0), (rows, 0), (1, 1)):
                for i in range(n_): e.append((one if ident else cconst(0)) + _rc(rnd, 32))
    El = [[cconst(0)] * cols for _ in range(rows)]
    if typ in (TE10, UE10, UE14, E12U):
        for r in range(rows):
            for c in range(cols):
                if r != c: El[r][c] = _rc(rnd, 64)
    return L, e, El


def forward_M(cfg, L, e, El, S):
    """documented forward model: the measurement matrix of a device with full S (P x P list of C)"""
    typ = E12U if cfg.typ == E12 else cfg.typ
    rows, cols, P = cfg.rows, cfg.cols, cfg.ports
    z = cconst(0)
    def blk(off, r_, c_, full):
        if full: return [[e[off + i * c_ + j] for j in range(c_)] for i in range(r_)]
        return [[e[off + i] if (i == j and i < min(r_, c_)) else z for j in range(c_)] for i in range(r_)]
    def madd(X, Y, sign=1): return [[X[i][j] + Y[i][j] if sign > 0 else X[i][j] - Y[i][j] for j in range(len(X[0]))] for i in range(len(X))]
    if typ in IS_T:
        full = typ == T16
        Ts = blk(L['ts'], rows, P, full); Ti = blk(L['ti'], rows, P, full); Tx = blk(L['tx'], cols, P, full); Tm = blk(L['tm'], cols, P, full)
        Mp = mat_mul(madd(mat_mul(Ts, S), Ti), mat_inv(madd(mat_mul(Tx, S), Tm)))
    elif typ in (U8, UE10, U16):
        full = typ == U16
        Um = blk(L['ts'], P, rows, full); Ui = blk(L['ti'], P, cols, full); Ux = blk(L['tx'], P, rows, full); Us = blk(L['tm'], P, cols, full)
        Mp = mat_mul(mat_inv(madd(Um, mat_mul(S, Ux), -1)), madd(mat_mul(S, Us), Ui, -1))
    else:
        ut = L['t_terms']
        Mp = [[z] * cols for _ in range(rows)]
        for c in range(cols):
            u = e[c * ut:(c + 1) * ut]
            um = u[0:rows]; ui = u[rows]; ux = u[rows + 1:2 * rows + 1]; us = u[2 * rows + 1]
            A = [[(um[r] if r == i else z) - S[r][i] * ux[i] for i in range(rows)] for r in range(rows)]
            B = [[us * S[r][c] - (ui if r == c else z)] for r in range(rows)]
            col = mat_mul(mat_inv(A), B)
            for r in range(rows): Mp[r][c] = col[r][0]
    return [[Mp[r][c] + (El[r][c] if r != c else z) for c in range(cols)] for r in range(rows)]


def exact_lstsq(A, b, m, n):
    """exact solution of the (consistent) system over Q(i); returns (x or None, rank, max_residual_is_zero)"""
    rowsM = [[A[i][j] for j in range(n)] + [b[i]] for i in range(m)]
    piv = []; r = 0
    for c in range(n):
        p = None
        for i in range(r, m):
            if not rowsM[i][c].iszero(): p = i; break
        if p is None: continue
        rowsM[r], rowsM[p] = rowsM[p], rowsM[r]
        pv = rowsM[r][c]; rowsM[r] = [v / pv for v in rowsM[r]]
        for i in range(m):
            if i != r and not rowsM[i][c].iszero():
                f = rowsM[i][c]; rowsM[i] = [rowsM[i][k] - f * rowsM[r][k] for k in range(n + 1)]
        piv.append(c); r += 1
    rank = r
    consistent = all(rowsM[i][n].iszero() for i in range(rank, m))
    if rank < n: return None, rank, consistent
    x = [rowsM[i][n] for i in range(n)]
    return x, rank, consistent


def concrete_check(mod, cfg, seed=1, do_apply=True):
    from irsym import Rat, Ptr
    from irparse import TFloat, TInt
    from irx import NULL, sgn
    rnd = random.Random(seed)
    res = {'cfg': cfg.name, 'seed': seed, 'fail': [], 'notes': []}
    typ = E12U if cfg.typ == E12 else cfg.typ
    rows, cols, P = cfg.rows, cfg.cols, cfg.ports
    L, et, Elt = true_terms(cfg, rnd)
    flow = Flow(mod, symbolic=False); it = flow.it
    solves = []
    def solver(A, b, m, n):
        x, rank, cons = exact_lstsq(A, b, m, n)
        solves.append((m, n, rank, cons))
        return x
    flow.solver = solver
    flow.create(); flow.new_alloc(cfg.typ, rows, cols, 1)
    flow.set_frequencies([Fraction(10 ** 9)])
    pvals = {}
    def val(spec, tag):
        if isinstance(spec, str): return cconst(PRE[spec][1])
        if spec not in pvals: pvals[spec] = _rc(rnd, 8)
        return pvals[spec]
    cnt0 = leakage_counts(cfg, val)
    for r in range(rows):
        for c in range(cols):
            if r != c and not cnt0[r][c]: Elt[r][c] = cconst(0)     # leakage that no standard isolates cannot be (and is documented not to be) estimated
    handles = {}; models = []; Ms = []
    for k, st in enumerate(cfg.stds):
        sm = std_model(cfg, st, k, val)
        S = [[sm.S[r][c] if sm.S[r][c] is not None else (_rc(rnd, 8) if r == c or (not sm.conn[r] and not sm.conn[c]) else cconst(0)) for c in range(P)] for r in range(P)]
        # unknown cells inside the connected block (partially specified standards) get generic values too
        for r in range(P):
            for c in range(P):
                if sm.S[r][c] is None and sm.conn[r] and sm.conn[c]: S[r][c] = _rc(rnd, 8)
        Mtrue = forward_M(cfg, L, et, Elt, S)
        mvals, avals, Mfull = oracle_measurements(cfg, st, k, sm, symbolic=False, rnd=rnd, mvalue=lambda r, c: Mtrue[r][c])
        rc = add_standard(flow, cfg, st, k, mvals, avals, handles, val)
        if rc != 0: res['fail'].append('add of standard %d refused: %s' % (k, it.errors[-1:])); return res
        models.append(sm); Ms.append(Mfull)
    rc = flow.solve()
    res['solve_rc'] = rc; res['solves'] = solves
    unknowns = L['t_terms'] - 1
    if rc != 0:
        res['fail'].append('vnacal_new_solve failed on exact model data: %s; systems (eq, unk, rank, consistent) = %s' % (it.errors[-1:], solves)); return res
    for (m, n, rank, cons) in solves:
        if rank < n: res['fail'].append('system is rank deficient at a generic point: rank %d < %d unknowns (%d equations)' % (rank, n, m))
        if not cons: res['fail'].append('assembled equations are not satisfied by any x although the data come from the documented model')
    if res['fail']: return res
    # truth normalised
    El_m, cnt = leakage_oracle(cfg, models, Ms)
    ut = L['t_terms']; nsys = L['systems']
    en = []
    for si in range(nsys):
        seg = et[si * ut:(si + 1) * ut] if typ in (UE14, E12U) else et
        u = unity_index(typ, L, si)
        en += [v / seg[u] for v in seg]
    for r in range(rows):
        for c in range(cols):
            if r != c and typ in (TE10, UE10, UE14, E12U): en.append(Elt[r][c] if cnt[r][c] else cconst(0))
    Eln = [[(Elt[r][c] if cnt[r][c] else cconst(0)) for c in range(cols)] for r in range(rows)]
    want = en if cfg.typ != E12 else e12_from_ue14(cfg, L, en, Eln)
    stored = read_error_terms(flow, len(want))
    from irx import Special
    nonfin = [i for i, a in enumerate(stored) if isinstance(a.re, Special) or isinstance(a.im, Special)]
    if nonfin:
        res['fail'].append('solved error terms are not finite at indices %s' % nonfin[:8]); return res
    bad = [i for i, (a, b_) in enumerate(zip(stored, want)) if not (a - b_).iszero()]
    if bad: res['fail'].append('solved error terms differ from the true (normalised) terms at indices %s' % bad[:8])
    res['terms'] = len(want)
    unmeasured = [(r, c) for r in range(rows) for c in range(cols) if r != c and typ in (TE10, UE10, UE14, E12U) and not cnt[r][c]]
    if unmeasured: res['notes'].append('leakage cells never measured (stored as 0): %s' % unmeasured)
    if res['fail'] or not do_apply or rows != cols or unmeasured: return res
    # ---- apply to an arbitrary DUT
    name = it.static_str(b'cal')
    ci = flow.icall('vnacal_add_calibration', [flow.vcp, name, flow.vnp])
    if ci < 0: res['fail'].append('vnacal_add_calibration failed: %s' % it.errors[-1:]); return res
    Sd = [[_rc(rnd, 8) for c in range(P)] for r in range(P)]
    Md = forward_M(cfg, L, et, Elt, Sd)
    vdp = flow.call('vnadata_alloc', [NULL, NULL])
    m = flow.cmatrix([[Md[r][c]] for r in range(rows) for c in range(cols)])
    rc = flow.icall('vnacal_apply_m', [flow.vcp, ci, flow.dvec([Fraction(10 ** 9)]), 1, m, rows, cols, vdp])
    if rc != 0: res['fail'].append('vnacal_apply_m failed: %s' % it.errors[-1:]); return res
    for r in range(P):
        for c in range(P):
            v = flow.call('vnadata_get_cell', [vdp, 0, r, c])
            if not (C(v[0], v[1]) - Sd[r][c]).iszero():
                res['fail'].append('vnacal_apply_m: S[%d][%d] differs from the DUT (exact arithmetic)' % (r, c))
    flow.call('vnadata_free', [vdp])
    flow.call('vnacal_new_free', [flow.vnp]); flow.call('vnacal_free', [flow.vcp])
    leaks = it.live_heap()
    if leaks: res['fail'].append('%d heap objects still allocated after vnacal_free' % len(leaks))
    res['steps'] = it.steps
    return res


# ---------------------------------------------------------------------------------------------------------------------
# native replay: the same flow as a C program against the gcc + ASan/UBSan build of the unmodified sources

def native_program(cfg, seed=1, tol=1e-6, compare_with=None, unrelated=False):
    """C source of: forward-model measurements from random error terms -> vnacal_new_add_* -> solve -> add_calibration -> apply_m on a
    random DUT -> compare with the DUT (exit 1 on any failing call or |difference| > tol).  compare_with: a second Config whose
    calibration (same true terms, same DUT) must correct identically (C17)."""
    rnd = random.Random(seed)
    typ = E12U if cfg.typ == E12 else cfg.typ
    L, et, Elt = true_terms(cfg, rnd)
    P = cfg.ports
    out = ['#include <stdio.h>', '#include <stdlib.h>', '#include <complex.h>', '#include <math.h>', '#include <errno.h>', '#include <string.h>', '#include <vnacal.h>', '',
           'static void errfn(const char *msg, void *arg, vnaerr_category_t c) { fprintf(stderr, "libvna: %s\\n", msg); }',
           '#define CHECK(x) do { if ((x) < 0) { fprintf(stderr, "FAILED: %s (errno %d: %s)\\n", #x, errno, strerror(errno)); exit(1); } } while (0)', '']
    def cnum(v): return '%r + %r * I' % (float(v.re.value()), float(v.im.value()))
    body = []
    pvals = {}
    def val(spec, tag):
        if isinstance(spec, str): return cconst(PRE[spec][1])
        if spec not in pvals: pvals[spec] = _rc(rnd, 8)
        return pvals[spec]
    Sd = None
    cnt0 = leakage_counts(cfg, val)
    for r in range(cfg.rows):
        for c in range(cfg.cols):
            if r != c and not cnt0[r][c]: Elt[r][c] = cconst(0)
    def calibrate(cf_, tagc):
        rows, cols = cf_.rows, cf_.cols
        body.append('    vnacal_new_t *vnp%s = vnacal_new_alloc(vcp, VNACAL_%s, %d, %d, 1);' % (tagc, NAMES[cf_.typ], rows, cols))
        body.append('    if (vnp%s == NULL) { fprintf(stderr, "vnacal_new_alloc failed\\n"); exit(1); }' % tagc)
        body.append('    CHECK(vnacal_new_set_frequency_vector(vnp%s, fv));' % tagc)
        handles = {}
        def h(spec):
            if isinstance(spec, str): return {'match': 'VNACAL_MATCH', 'zero': 'VNACAL_ZERO', 'open': 'VNACAL_OPEN', 'one': 'VNACAL_ONE', 'short': 'VNACAL_SHORT'}[spec]
            if spec not in handles:
                nm = 'p%s_%s' % (tagc, spec[1]); handles[spec] = nm
                if spec[0] == 'unk':
                    g_ = val(spec, None) + cconst(Fraction(1, 64), Fraction(-1, 128))
                    body.append('    int %s_guess = vnacal_make_scalar_parameter(vcp, %s); CHECK(%s_guess);' % (nm, cnum(g_), nm))
                    body.append('    int %s = vnacal_make_unknown_parameter(vcp, %s_guess); CHECK(%s);' % (nm, nm, nm))
                else:
                    body.append('    int %s = vnacal_make_scalar_parameter(vcp, %s); CHECK(%s);' % (nm, cnum(val(spec, None)), nm))
            return handles[spec]
        for k, st in enumerate(cf_.stds):
            sm = std_model(cf_, st, k, val)
            S = [[sm.S[r][c] if sm.S[r][c] is not None else (_rc(random.Random(seed * 1000 + k * 37 + r * 5 + c), 8) if (r == c or (not sm.conn[r] and not sm.conn[c]) or (sm.conn[r] and sm.conn[c])) else cconst(0))
                  for c in range(P)] for r in range(P)]
            Mtrue = forward_M(cf_, L, et, Elt, S)
            mvals, avals, Mfull = oracle_measurements(cf_, st, k, sm, symbolic=False, rnd=random.Random(seed * 77 + k), mvalue=lambda r, c: Mtrue[r][c])
            br = st.brows if st.brows is not None else rows
            bc = st.bcols if st.bcols is not None else cols
            v = 'b%s_%d' % (tagc, k)
            body.append('    static double complex %s_v[%d][1] = {%s};' % (v, len(mvals), ', '.join('{%s}' % cnum(x) for x in mvals)))
            body.append('    double complex *%s[%d]; for (int i = 0; i < %d; ++i) %s[i] = %s_v[i];' % (v, len(mvals), len(mvals), v, v))
            if st.form in ('ab', 'abc', 'abk'):
                ar, ac = (1, bc) if cf_.typ in (UE14, E12) else (bc, bc)
                a = 'a%s_%d' % (tagc, k)
                body.append('    static double complex %s_v[%d][1] = {%s};' % (a, len(avals), ', '.join('{%s}' % cnum(x) for x in avals)))
                body.append('    double complex *%s[%d]; for (int i = 0; i < %d; ++i) %s[i] = %s_v[i];' % (a, len(avals), len(avals), a, a))
                pre = 'vnp%s, %s, %d, %d, %s, %d, %d' % (tagc, a, ar, ac, v, br, bc); sfx = ''
            else:
                pre = 'vnp%s, %s, %d, %d' % (tagc, v, br, bc); sfx = '_m'
            if st.kind == 'single': call = 'vnacal_new_add_single_reflect%s(%s, %s, %d)' % (sfx, pre, h(st.sp[0]), st.ports[0])
            elif st.kind == 'double': call = 'vnacal_new_add_double_reflect%s(%s, %s, %s, %d, %d)' % (sfx, pre, h(st.sp[0]), h(st.sp[1]), st.ports[0], st.ports[1])
            elif st.kind == 'through': call = 'vnacal_new_add_through%s(%s, %d, %d)' % (sfx, pre, st.ports[0], st.ports[1])
            elif st.kind == 'line':
                hs = [h(x) for x in st.sp]
                body.append('    int s%s_%d[4] = {%s};' % (tagc, k, ', '.join(hs)))
                call = 'vnacal_new_add_line%s(%s, s%s_%d, %d, %d)' % (sfx, pre, tagc, k, st.ports[0], st.ports[1])
            else:
                hs = [h(x) for x in st.sp]
                body.append('    int s%s_%d[%d] = {%s};' % (tagc, k, len(st.sp), ', '.join(hs)))
                if st.map_null: pm = 'NULL'
                else:
                    body.append('    int pm%s_%d[%d] = {%s};' % (tagc, k, len(st.ports), ', '.join(str(p) for p in st.ports))); pm = 'pm%s_%d' % (tagc, k)
                call = 'vnacal_new_add_mapped_matrix%s(%s, s%s_%d, %d, %d, %s)' % (sfx, pre, tagc, k, st.s_rows, st.s_cols, pm)
            body.append('    CHECK(%s);' % call)
        if getattr(cf_, 'm_error', False):
            body.append('    { static const double nf[1] = {1e-4}, tr[1] = {1e-3}; CHECK(vnacal_new_set_m_error(vnp%s, NULL, 1, nf, tr)); }' % tagc)
        body.append('    CHECK(vnacal_new_solve(vnp%s));' % tagc)
        body.append('    int ci%s = vnacal_add_calibration(vcp, "cal%s", vnp%s); CHECK(ci%s);' % (tagc, tagc, tagc, tagc))
    calibrate(cfg, 'A')
    if unrelated:
        # the same calibration once more, after an unrelated one was built, solved and installed on the same vnacal_t
        body.append('    { vnacal_new_t *vu = vnacal_new_alloc(vcp, VNACAL_UE10, 1, 1, 1); static const double fu[1] = {7.0e8}; CHECK(vnacal_new_set_frequency_vector(vu, fu));')
        body.append('      int pu = vnacal_make_scalar_parameter(vcp, -0.9 + 0.1 * I); CHECK(pu);')
        body.append('      static double complex mu[3][1] = {{-0.7 + 0.2 * I}, {0.8 - 0.1 * I}, {0.05 + 0.02 * I}}; double complex *mp[1];')
        body.append('      mp[0] = mu[0]; CHECK(vnacal_new_add_single_reflect_m(vu, mp, 1, 1, pu, 1)); mp[0] = mu[1]; CHECK(vnacal_new_add_single_reflect_m(vu, mp, 1, 1, VNACAL_OPEN, 1));')
        body.append('      mp[0] = mu[2]; CHECK(vnacal_new_add_single_reflect_m(vu, mp, 1, 1, VNACAL_MATCH, 1)); CHECK(vnacal_new_solve(vu)); CHECK(vnacal_add_calibration(vcp, "unrelated", vu));')
        body.append('      CHECK(vnacal_make_scalar_parameter(vcp, 0.3 - 0.4 * I)); vnacal_new_free(vu); }')
        calibrate(cfg, 'B')
    if compare_with is not None: calibrate(compare_with, 'B')
    rows, cols = cfg.rows, cfg.cols
    if rows == cols:
        Sd = [[_rc(rnd, 8) for c in range(P)] for r in range(P)]
        Md = forward_M(cfg, L, et, Elt, Sd)
        body.append('    static double complex md_v[%d][1] = {%s};' % (rows * cols, ', '.join('{%s}' % cnum(Md[r][c]) for r in range(rows) for c in range(cols))))
        body.append('    double complex *md[%d]; for (int i = 0; i < %d; ++i) md[i] = md_v[i];' % (rows * cols, rows * cols))
        body.append('    static const double complex sd[%d] = {%s};' % (P * P, ', '.join(cnum(Sd[r][c]) for r in range(P) for c in range(P))))
        for tagc in (['A'] + (['B'] if (compare_with is not None or unrelated) else [])):
            body.append('    { vnadata_t *vdp = vnadata_alloc(errfn, NULL); CHECK(vnacal_apply_m(vcp, ci%s, fv, 1, md, %d, %d, vdp));' % (tagc, rows, cols))
            body.append('      for (int r = 0; r < %d; ++r) for (int c = 0; c < %d; ++c) { double complex v = vnadata_get_cell(vdp, 0, r, c);' % (P, P))
            body.append('        if (!(cabs(v - sd[r * %d + c]) <= %g)) { fprintf(stderr, "calibration %s: corrected S[%%d][%%d] = %%g%%+gi, device has %%g%%+gi\\n", r, c, creal(v), cimag(v), creal(sd[r * %d + c]), cimag(sd[r * %d + c])); bad = 1; } }' % (P, tol, tagc, P, P))
            body.append('      vnadata_free(vdp); }')
    # the saved error terms must be finite numbers (observable for shapes apply does not accept, too)
    body.append('    CHECK(vnacal_save(vcp, "vf_replay.vnacal"));')
    body.append('    { FILE *fp = fopen("vf_replay.vnacal", "r"); char line[4096]; while (fp != NULL && fgets(line, sizeof(line), fp) != NULL) {')
    body.append('        if (strstr(line, "nan") != NULL || strstr(line, "inf") != NULL) { fprintf(stderr, "saved calibration holds a non-finite term: %s", line); bad = 1; } }')
    body.append('      if (fp != NULL) fclose(fp); remove("vf_replay.vnacal"); }')
    for tagc in (['A'] + (['B'] if (compare_with is not None or unrelated) else [])): body.append('    vnacal_new_free(vnp%s);' % tagc)
    out += ['int main(void)', '{', '    int bad = 0;', '    static const double fv[1] = {1.0e9};', '    vnacal_t *vcp = vnacal_create(errfn, NULL);',
            '    if (vcp == NULL) return 2;'] + body + ['    vnacal_free(vcp);', '    if (bad) { fprintf(stderr, "VF-ASSERT-FAIL: calibrate-then-apply does not recover the device\\n"); return 1; }',
                                                          '    printf("ok\\n"); return 0;', '}', '']
    return '\n'.join(out)


# ---------------------------------------------------------------------------------------------------------------------
# worker for props/calrun.run_jobs

def cal_worker(mod, job):
    """job: {'id': config name, 'tier':..., 'concrete': bool}.  One configuration: every feasible path of the symbolic run (z3 decides
    the row identities) + the exact rational end-to-end run."""
    from props import calcfg
    import irx
    cfg = calcfg.by_name(job['id'], job['tier'])
    out = {'id': cfg.name, 'paths': 0, 'queries': 0, 'unsat': 0, 'sat': [], 'unknown': [], 'fault': None, 'solve_failed_paths': 0,
           'generic_assumed': 0, 'funcs': [], 'systems': None, 'steps': 0, 'unexplored': []}
    try:
        rs = symbolic_all_paths(mod, cfg, max_paths=job.get('max_paths', 64))
    except (irx.MemFault, irx.LibAbort) as e:
        out['fault'] = '%s: %s' % (type(e).__name__, e); rs = []
    funcs = set()
    for r in rs:
        out['paths'] += 1; out['queries'] += r['queries']; out['unsat'] += r['unsat']
        out['sat'] += [dict(x, path=r['path']) for x in r['sat']]; out['unknown'] += r['unknown']
        out['generic_assumed'] = max(out['generic_assumed'], len(r.get('generic_assumed', [])))
        out['steps'] += r.get('steps', 0)
        out['unexplored'] += r.get('unexplored', [])
        funcs.update(r.get('funcs', []))
        if r.get('error'): out['sat'].append({'q': 'the documented call sequence is accepted', 'detail': r['error'], 'path': r['path']})
        elif r.get('skipped'): out['skipped_paths'] = out.get('skipped_paths', 0) + 1
        elif r.get('solve_rc', 0) != 0: out['solve_failed_paths'] += 1
        elif out['systems'] is None: out['systems'] = r.get('systems')
    if rs and out['solve_failed_paths'] == len(rs) - out.get('skipped_paths', 0) and out['solve_failed_paths'] and not job.get('expect_underdetermined'):
        out['sat'].append({'q': 'vnacal_new_solve succeeds on a determining set of standards', 'detail': 'solve failed on every path: %s' % rs[0].get('notes')})
    out['funcs'] = sorted(funcs)
    if job.get('concrete', True) and out['fault'] is None:
        try:
            c = concrete_check(mod, cfg, seed=job.get('seed', 1))
            out['concrete'] = {'fail': c['fail'], 'notes': c['notes'], 'solves': c.get('solves'), 'terms': c.get('terms')}
        except (irx.MemFault, irx.LibAbort) as e:
            out['fault'] = '%s: %s' % (type(e).__name__, e)
    return out


# ---------------------------------------------------------------------------------------------------------------------
# apply on a frequency grid that differs from the calibration's (subset / single / reordered selection of the calibration points)

APPLY_GRIDS = {'all': (0, 1, 2), 'ends': (0, 2), 'last': (2,), 'upper': (1, 2), 'middle': (1,),
               # requests BETWEEN calibration points (frequency in Hz as Fraction): the error terms are made linear in frequency, which the
               # documented rational interpolation must reproduce exactly whatever the number of requested points
               'between-1': (Fraction(3 * 10 ** 9, 2),), 'between-2': (Fraction(3 * 10 ** 9, 2), Fraction(3 * 10 ** 9)), 'between-3': (Fraction(5 * 10 ** 9, 4), Fraction(3 * 10 ** 9), Fraction(7 * 10 ** 9, 2))}


def apply_grid_worker(mod, job):
    """job: {'id', 'type': T8|U8|TE10|UE10, 'n': 1|2, 'grid': key of APPLY_GRIDS}.  A calibration with 3 frequencies and symbolic error terms
    (solver results are fresh symbols) is applied by the real vnacal_apply_m to symbolic measurements at a selection of the calibration
    frequencies: the returned S must satisfy the documented equation with the error terms OF THAT FREQUENCY (interpolation is exact at the
    given points and does not depend on how many points are requested)."""
    import z3, irsym, irx
    from irx import NULL, sgn, Special
    from irsym import Rat, Ptr
    from props import calcfg
    typ, n, sel = job['type'], job['n'], APPLY_GRIDS[job['grid']]
    out = {'id': job['id'], 'paths': 0, 'queries': 0, 'unsat': 0, 'sat': [], 'unknown': [], 'fault': None, 'funcs': []}
    freqs = [Fraction(10 ** 9), Fraction(2 * 10 ** 9), Fraction(4 * 10 ** 9)]
    cfg = Config(typ, n, n, calcfg.base_set(typ, n, n))
    L = layout_doc(typ, n, n)
    def run(ch, holder):
        flow = Flow(mod); it = flow.it; holder['flow'] = flow
        it.choices = list(ch); it.generic = True
        res = {'queries': 0, 'unsat': 0, 'sat': [], 'unknown': []}
        flow.create(); flow.new_alloc(typ, n, n, 3)
        assert flow.set_frequencies(freqs) == 0
        def val(spec, tag_): return cconst(PRE[spec][1])
        handles = {}
        for k, st in enumerate(cfg.stds):
            sm = std_model(cfg, st, k, val)
            per_f = [oracle_measurements(cfg, st, k, sm, symbolic=True, mvalue=lambda r, c, fi=fi, k=k: csym('m%d_%d%d_f%d' % (k, r, c, fi))) for fi in range(3)]
            mvals = [[pf[0][i] for pf in per_f] for i in range(len(per_f[0][0]))]
            assert add_standard(flow, cfg, st, k, mvals, None, handles, val) == 0
        flow.xname = lambda q: 'g%d' % q
        between = isinstance(sel[0], Fraction)
        lin = {}
        if between:
            # solver results linear in frequency: x_j(f) = a_j + b_j * f / 1e9
            def solver(A_, b_, m_, n_):
                fi = len(flow.captured)
                out_ = []
                for j in range(n_):
                    # (constant coefficients: with symbolic ones the rational interpolation of _vnacal_rfi does not finish within 600 s)
                    if j not in lin: lin[j] = (cconst(Fraction(9 + 2 * j, 8) if j % 2 == 0 else Fraction(j, 16), Fraction(j - 1, 16)), cconst(Fraction(1 + j, 32), Fraction(2 - j, 64)))
                    out_.append(lin[j][0] + lin[j][1] * cconst(freqs[fi] / 10 ** 9))
                return out_
            flow.solver = solver
        assert flow.solve() == 0
        n_out = L['el'] + L['el_terms']
        terms = [read_error_terms(flow, n_out, f) for f in range(3)]
        ci = flow.icall('vnacal_add_calibration', [flow.vcp, it.static_str(b'c'), flow.vnp])
        assert ci == 0
        K = len(sel)
        M = [[[csym('dm%d%d_q%d' % (r, c, q)) for q in range(K)] for c in range(n)] for r in range(n)]
        mp = flow.cmatrix([M[r][c] for r in range(n) for c in range(n)])
        vdp = flow.call('vnadata_alloc', [NULL, NULL])
        reqf = list(sel) if between else [freqs[i] for i in sel]
        rc = flow.icall('vnacal_apply_m', [flow.vcp, 0, flow.dvec(reqf), K, mp, n, n, vdp])
        def check(cond, q, detail=None):
            res['queries'] += 1
            if cond: res['unsat'] += 1
            else: res['sat'].append({'q': q, 'detail': detail})
            return cond
        if rc == -1 and it.errors and b'singular' in it.errors[-1][1] and it.get_errno() == 33:
            # the branch on which the determinant of the system is zero / not a normal number: reported through the documented error path
            check(True, 'a singular system is reported with EDOM'); res['singular_path'] = True
            flow.call('vnadata_free', [vdp]); flow.call('vnacal_new_free', [flow.vnp]); flow.call('vnacal_free', [flow.vcp])
            check(not it.live_heap(), 'nothing stays allocated', len(it.live_heap()))
            return res
        if not check(rc == 0, 'vnacal_apply_m on a selection of the calibration frequencies succeeds', it.errors[-1:]): return res
        zero = cconst(0)
        for q, fi in enumerate(sel):
            if between:
                # the terms at the requested frequency: the same linear law, unity term and leakage as stored at the calibration points
                u_ = unity_index(typ, L, 0)
                xs_ = [lin[j][0] + lin[j][1] * cconst(fi / 10 ** 9) for j in range(len(lin))]
                e = xs_[:u_] + [cconst(1)] + xs_[u_:]
                e = e + terms[0][len(e):]
            else:
                e = terms[fi]
            S = [[None] * n for _ in range(n)]
            for r in range(n):
                for c in range(n):
                    w = flow.call('vnadata_get_cell', [vdp, q, r, c]); S[r][c] = C(w[0], w[1])
            Mq = [[M[r][c][q] for c in range(n)] for r in range(n)]
            if typ in (TE10, UE10):
                k_ = L['el']
                for r in range(n):
                    for c in range(n):
                        if r != c: Mq[r][c] = Mq[r][c] - e[k_]; k_ += 1
            D = lambda off: [[e[off + r] if r == c else zero for c in range(n)] for r in range(n)]
            blk = [D(L['ts']), D(L['ti']), D(L['tx']), D(L['tm'])]
            def sub(X, Y): return [[X[r][c] - Y[r][c] for c in range(n)] for r in range(n)]
            def add(X, Y): return [[X[r][c] + Y[r][c] for c in range(n)] for r in range(n)]
            if typ in IS_T:      # (Ts - M Tx) S = M Tm - Ti
                Rm = sub(mat_mul(sub(blk[0], mat_mul(Mq, blk[2])), S), sub(mat_mul(Mq, blk[3]), blk[1]))
            else:                # S (Ux M + Us) = Um M + Ui        (blocks: um, ui, ux, us)
                Rm = sub(mat_mul(S, add(mat_mul(blk[2], Mq), blk[3])), add(mat_mul(blk[0], Mq), blk[1]))
            ex = []
            for r in range(n):
                for c in range(n): ex += [Rm[r][c].re, Rm[r][c].im]
            if any(isinstance(x, Special) for x in ex): res['sat'].append({'q': 'applied S at requested point %d is finite' % q}); continue
            st_, mdl = irsym.check_zero(it, ex, timeout_ms=60000)
            res['queries'] += 1
            if st_ == 'unsat': res['unsat'] += 1
            elif st_ == 'sat': res['sat'].append({'q': 'requested point %d (%s): S satisfies the documented equation with the error terms of that frequency' % (q, ('calibration frequency %d' % fi) if not between else ('%s Hz, between calibration points, terms linear in f' % fi)),
                                                  'model': {d.name(): str(mdl[d]) for d in list(mdl.decls())[:10]}})
            else: res['unknown'].append({'q': 'requested point %d' % q, 'why': str(mdl)})
        flow.call('vnadata_free', [vdp]); flow.call('vnacal_new_free', [flow.vnp]); flow.call('vnacal_free', [flow.vcp])
        check(not it.live_heap(), 'nothing stays allocated', len(it.live_heap()))
        res['funcs'] = sorted(it.funcs_run)
        return res
    try:
        rs = all_paths(run, max_paths=64)
    except (irx.MemFault, irx.LibAbort) as e_:
        out['fault'] = '%s: %s' % (type(e_).__name__, e_); return out
    fs = set()
    for r in rs:
        out['paths'] += 1; out['queries'] += r['queries']; out['unsat'] += r['unsat']; out['sat'] += r['sat']; out['unknown'] += r['unknown']; fs.update(r.get('funcs', []))
    out['funcs'] = sorted(fs)
    return out


def apply_grid_native(job):
    """the same selection natively: calibrate on 3 frequencies with frequency-dependent error terms, apply at the selected points"""
    typ, n, sel = job['type'], job['n'], APPLY_GRIDS[job['grid']]
    if isinstance(sel[0], Fraction): return apply_between_native(job)
    L = ['#include <stdio.h>', '#include <stdlib.h>', '#include <math.h>', '#include <complex.h>', '#include <vnacal.h>',
         'static void errfn(const char *m, void *a, vnaerr_category_t c) { fprintf(stderr, "libvna: %s\\n", m); }',
         '/* one-port error box per frequency: m = (ts s + ti) / (tx s + 1) */',
         'static const double complex ts[3] = {1.1 + 0.1 * I, 0.7 - 0.2 * I, 1.4 + 0.3 * I}, ti[3] = {0.05, -0.1 + 0.05 * I, 0.2 * I}, tx[3] = {0.1 * I, 0.2, -0.15 + 0.1 * I};',
         'static double complex meas(int f, double complex s) { return (ts[f] * s + ti[f]) / (tx[f] * s + 1.0); }',
         'int main(void) { int bad = 0; const double fv[3] = {1e9, 2e9, 4e9}; vnacal_t *vcp = vnacal_create(errfn, NULL);',
         '  vnacal_new_t *vnp = vnacal_new_alloc(vcp, VNACAL_%s, 1, 1, 3); vnacal_new_set_frequency_vector(vnp, fv);' % NAMES[typ],
         '  double complex v[3]; double complex *p[1] = {v};',
         '  for (int f = 0; f < 3; ++f) v[f] = meas(f, -1); vnacal_new_add_single_reflect_m(vnp, p, 1, 1, VNACAL_SHORT, 1);',
         '  for (int f = 0; f < 3; ++f) v[f] = meas(f, 1); vnacal_new_add_single_reflect_m(vnp, p, 1, 1, VNACAL_OPEN, 1);',
         '  for (int f = 0; f < 3; ++f) v[f] = meas(f, 0); vnacal_new_add_single_reflect_m(vnp, p, 1, 1, VNACAL_MATCH, 1);',
         '  if (vnacal_new_solve(vnp) != 0 || vnacal_add_calibration(vcp, "c", vnp) != 0) return 2;',
         '  const int sel[%d] = {%s}; double fq[%d]; double complex dm[%d]; double complex *dp[1] = {dm}; const double complex dut = 0.3 - 0.4 * I;' % (len(sel), ', '.join(str(i) for i in sel), len(sel), len(sel)),
         '  for (int q = 0; q < %d; ++q) { fq[q] = fv[sel[q]]; dm[q] = meas(sel[q], dut); }' % len(sel),
         '  vnadata_t *vd = vnadata_alloc(errfn, NULL); if (vnacal_apply_m(vcp, 0, fq, %d, dp, 1, 1, vd) != 0) { fprintf(stderr, "VF-ASSERT-FAIL: apply failed\\n"); return 1; }' % len(sel),
         '  for (int q = 0; q < %d; ++q) if (cabs(vnadata_get_cell(vd, q, 0, 0) - dut) > 1e-9) { fprintf(stderr, "VF-ASSERT-FAIL: corrected S at %%g Hz is %%g%%+gi, device is %%g%%+gi\\n", fq[q], creal(vnadata_get_cell(vd, q, 0, 0)), cimag(vnadata_get_cell(vd, q, 0, 0)), creal(dut), cimag(dut)); bad = 1; }' % len(sel),
         '  vnadata_free(vd); vnacal_new_free(vnp); vnacal_free(vcp); return bad; }']
    return '\n'.join(L) + '\n'


def apply_between_native(job):
    """error terms exactly linear in frequency (the measurements of short / open / match are produced from them), apply between the points"""
    typ, sel = job['type'], APPLY_GRIDS[job['grid']]
    K = len(sel)
    L = ['#include <stdio.h>', '#include <stdlib.h>', '#include <math.h>', '#include <complex.h>', '#include <vnacal.h>',
         'static void errfn(const char *m, void *a, vnaerr_category_t c) { fprintf(stderr, "libvna: %s\\n", m); }',
         '/* one-port error box, every term linear in f (GHz): m = (ts s + ti) / (tx s + 1) */',
         'static double complex ts(double g) { return 1.1 + 0.1 * I + (0.05 - 0.02 * I) * g; } static double complex ti(double g) { return 0.05 + (0.01 + 0.03 * I) * g; } static double complex tx(double g) { return 0.1 * I + (-0.02 + 0.01 * I) * g; }',
         'static double complex meas(double g, double complex s) { return (ts(g) * s + ti(g)) / (tx(g) * s + 1.0); }',
         'int main(void) { int bad = 0; const double fv[3] = {1e9, 2e9, 4e9}; vnacal_t *vcp = vnacal_create(errfn, NULL);',
         '  vnacal_new_t *vnp = vnacal_new_alloc(vcp, VNACAL_%s, 1, 1, 3); vnacal_new_set_frequency_vector(vnp, fv);' % NAMES[typ],
         '  double complex v[3]; double complex *p[1] = {v};',
         '  for (int f = 0; f < 3; ++f) v[f] = meas(fv[f] / 1e9, -1); vnacal_new_add_single_reflect_m(vnp, p, 1, 1, VNACAL_SHORT, 1);',
         '  for (int f = 0; f < 3; ++f) v[f] = meas(fv[f] / 1e9, 1); vnacal_new_add_single_reflect_m(vnp, p, 1, 1, VNACAL_OPEN, 1);',
         '  for (int f = 0; f < 3; ++f) v[f] = meas(fv[f] / 1e9, 0); vnacal_new_add_single_reflect_m(vnp, p, 1, 1, VNACAL_MATCH, 1);',
         '  if (vnacal_new_solve(vnp) != 0 || vnacal_add_calibration(vcp, "c", vnp) != 0) return 2;',
         '  const double fq[%d] = {%s}; double complex dm[%d]; double complex *dp[1] = {dm}; const double complex dut = 0.3 - 0.4 * I;' % (K, ', '.join(repr(float(x)) for x in sel), K),
         '  for (int q = 0; q < %d; ++q) dm[q] = meas(fq[q] / 1e9, dut);' % K,
         '  vnadata_t *vd = vnadata_alloc(errfn, NULL); if (vnacal_apply_m(vcp, 0, fq, %d, dp, 1, 1, vd) != 0) { fprintf(stderr, "VF-ASSERT-FAIL: apply failed\\n"); return 1; }' % K,
         '  for (int q = 0; q < %d; ++q) if (cabs(vnadata_get_cell(vd, q, 0, 0) - dut) > 1e-9) { fprintf(stderr, "VF-ASSERT-FAIL: corrected S at %%g Hz is %%g%%+gi, device is %%g%%+gi\\n", fq[q], creal(vnadata_get_cell(vd, q, 0, 0)), cimag(vnadata_get_cell(vd, q, 0, 0)), creal(dut), cimag(dut)); bad = 1; }' % K,
         '  vnadata_free(vd); vnacal_new_free(vnp); vnacal_free(vcp); return bad; }']
    return '\n'.join(L) + '\n'
