"""C17: equivalent ways of describing the same calibration give the same result.
Engine: the real vnacal_new_add_* .. vnacal_new_solve run symbolically twice (vf/irx.py) with the SAME symbols for the same physical
quantities (measurement symbols are named by physical standard and full-matrix cell, parameter symbols by parameter); z3 decides that
both runs hand the same equations (as multisets, up to sign) to the linear solver in every system and store the same error terms.

  pair        base description ~ {line for through, mapped matrix (with / without port map), ports listed in the other order,
              abbreviated measurement matrix, reversed / rotated order of standards, a/b form with b = M a for a symbolic / scaled /
              constant reference a (common scaling of a and b included)}                                    (props/calcfg.py)
  unrelated   the same calibration built after an unrelated calibration (other type / shape / parameters) was built, solved and
              installed on the same vnacal_t
  freqsplit   two frequencies solved together ~ each frequency solved on its own
Same equations + same solver (C19) => same error terms => same applied S (apply side: C01).
"""
import os, re, json, time
from vf import core

EXPLAIN = __doc__


def run(tier, only=None):
    from props import calflow, calcfg, calrun
    t0 = time.time()
    ctx = core.Ctx()
    try:
        ml = calrun.build_whole_ir(ctx); calrun.load_module(ml)
        jobs = [{'id': '%s~%s' % (x, y[len(x) - 4:]), 'tier': tier, 'x': x, 'y': y, 'mode': 'pair'} for x, y in calcfg.pairs(tier)]
        bases = [c.name for c in calcfg.configs(tier) if c.name.endswith('-base')]
        jobs += [{'id': '%s~after-unrelated' % x, 'tier': tier, 'x': x, 'y': None, 'mode': 'unrelated'} for x in bases]
        jobs += [{'id': '%s~freqsplit' % x, 'tier': tier, 'x': x, 'y': None, 'mode': 'freqsplit'} for x in bases]
        if only: jobs = [j for j in jobs if only in j['id']]
        results = calrun.run_jobs(calflow.pair_worker, jobs, par=max(1, core.NCPU - 1), timeout=600 if tier == 'quick' else 3000, mem_gb=10)
        native = calrun.Native(ctx)
        viol = []
        for r, j in zip(results, jobs):
            if r.get('error'): continue
            whats = []
            if r.get('fault'): whats.append('memory fault / abort in the symbolic run of the real code: ' + r['fault'])
            for x in r.get('sat', []): whats.append('%s %s' % (x.get('q'), json.dumps({k: v for k, v in x.items() if k != 'q'}, default=str)[:300]))
            if not whats: continue
            cx = calcfg.by_name(j['x'], tier); cy = calcfg.by_name(j['y'], tier) if j['y'] else None
            rd = os.path.join(core.VERIF, 'evidence', 'replay', 'C17_' + re.sub(r'\W+', '_', r['id']))
            ok, how, outp = native.run_c(calflow.native_program(cx, compare_with=cy, unrelated=(j['mode'] == 'unrelated')), rd)
            json.dump({'property': 'C17', 'job': r['id'], 'what': whats, 'native': how}, open(os.path.join(rd, 'cex.json'), 'w'), indent=1, default=str)
            viol.append({'id': r['id'], 'what': ' ;; '.join(whats), 'replay': rd, 'confirmed': ok, 'how': how})
        funcs = sorted(set(f for r in results for f in (r.get('funcs') or [])))
        meta = {'checker_cmd': 'clang-14 -O0 -emit-llvm (whole library) | llvm-link | opt -mem2reg | vf/irx.py (two symbolic runs with shared symbols) | z3 (row identities)',
                'trusted_base': ['clang-14 front end', 'vf/irparse.py, vf/irsym.py, vf/irx.py', 'z3', 'the re-description generators of props/calcfg.py (what counts as the same physical information)',
                                 'clang ASan/UBSan native build for replay'],
                'functions': funcs,
                'bounds': '%d comparisons: all 8 error-term types x every accepted shape up to %d ports; re-descriptions: line / mapped matrix / NULL port map / swapped port order / abbreviated matrix / '
                          'reversed and rotated order / a-b forms (b = M a; a symbolic 2x2 for T8, U8 and the per-column types, scaled-constant and constant otherwise); after an unrelated calibration; '
                          '2 frequencies together vs separately; every measured value and parameter a free complex symbol; all feasible pivot-branch combinations of the a matrix' % (len(jobs), 2 if tier == 'quick' else 3),
                'outside': 'port renumbering (compared only through swapped listing of a standard\'s ports, not a renumbering of the VNA), E12 versus UE14 on the apply side, unknown-parameter solves, '
                           'the linear solvers (hooked; C19), rounding; measure-zero sets where free values coincide (generic assumptions, listed per job)',
                'explanation': EXPLAIN,
                'assumptions': ['exact complex-field arithmetic', 'generic values (symbolic equality tests take the unequal branch)'],
                'samples': [{'id': r.get('id'), 'paths': r.get('paths'), 'queries': r.get('queries'), 'equations': r.get('equations'), 'time_s': r.get('time')} for r in results[:24]]}
        rc, ev = calrun.report('C17', tier, results, viol, meta, t0, extra_cov={'unexplored_branches': sum(len(r.get('unexplored') or []) for r in results)})
        return rc
    finally:
        ctx.close()
