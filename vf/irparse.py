#!/usr/bin/env python3
"""Structured parser for LLVM-14 textual IR (typed pointers) as produced by
clang-14 -O0/-O1 -S -emit-llvm on C sources.  Shared by ll2c (IR -> C for CBMC)
and irsym (IR symbolic interpreter -> SMT)."""
import re, struct

TOK = re.compile(r'''
   (?P<ws>\s+|;[^\n]*)
 | (?P<str>c?"(?:[^"\\]|\\.)*")
 | (?P<gid>@(?:[-a-zA-Z$._0-9]+|"[^"]*"))
 | (?P<lid>%(?:[-a-zA-Z$._0-9]+|"[^"]*"))
 | (?P<meta>![-a-zA-Z$._0-9]*)
 | (?P<attr>\#\d+)
 | (?P<num>-?0x[KLMHR]?[0-9A-Fa-f]+|-?\d+\.\d*(?:[eE][-+]?\d+)?|-?\d+)
 | (?P<dots>\.\.\.)
 | (?P<word>[a-zA-Z_][-a-zA-Z$._0-9]*)
 | (?P<p>[(){}\[\]<>,=*:|])
''', re.X)


def lex(s):
    out = []; i = 0; n = len(s)
    while i < n:
        m = TOK.match(s, i)
        if not m:
            raise SyntaxError("lex: %r" % s[i:i + 60])
        i = m.end(); k = m.lastgroup
        if k != 'ws':
            out.append((k, m.group(k)))
    return out


# ----------------------------------------------------------------- types
class Type:
    pass


class TInt(Type):
    def __init__(s, n): s.n = n
    def key(s): return 'i%d' % s.n


class TFloat(Type):
    def __init__(s, k): s.k = k
    def key(s): return s.k


class TVoid(Type):
    def key(s): return 'void'


class TPtr(Type):
    def __init__(s, to): s.to = to
    def key(s): return s.to.key() + '*'


class TArr(Type):
    def __init__(s, n, el): s.n = n; s.el = el
    def key(s): return '[%d x %s]' % (s.n, s.el.key())


class TStruct(Type):
    def __init__(s, els, packed=False): s.els = els; s.packed = packed
    def key(s): return ('<{' if s.packed else '{') + ','.join(e.key() for e in s.els) + '}'


class TNamed(Type):
    def __init__(s, name): s.name = name
    def key(s): return s.name


class TFunc(Type):
    def __init__(s, ret, args, va): s.ret = ret; s.args = args; s.va = va
    def key(s): return s.ret.key() + '(' + ','.join(a.key() for a in s.args) + (',...' if s.va else '') + ')'


class TOpaque(Type):
    def key(s): return 'opaque'


class TVec(Type):
    def __init__(s, n, el): s.n = n; s.el = el
    def key(s): return '<%d x %s>' % (s.n, s.el.key())


PARAM_ATTRS = {'noundef', 'nonnull', 'noalias', 'nocapture', 'readonly', 'readnone', 'writeonly', 'signext',
               'zeroext', 'returned', 'immarg', 'inreg', 'nest', 'nofree', 'swiftself', 'swifterror'}
SKIP_WORDS = {'dso_local', 'local_unnamed_addr', 'unnamed_addr', 'internal', 'private', 'external', 'hidden',
              'common', 'weak', 'linkonce_odr', 'available_externally', 'tail', 'musttail', 'notail', 'nsw', 'nuw',
              'exact', 'inbounds', 'fast', 'nnan', 'ninf', 'nsz', 'arcp', 'contract', 'afn', 'reassoc', 'volatile',
              'fastcc', 'ccc', 'dso_preemptable', 'appending', 'weak_odr', 'linkonce', 'extern_weak'}


# ----------------------------------------------------------------- values
class Val:
    pass


class Local(Val):
    def __init__(s, name): s.name = name
    def __repr__(s): return s.name


class GlobalRef(Val):
    def __init__(s, name): s.name = name
    def __repr__(s): return s.name


class CInt(Val):
    def __init__(s, v): s.v = v
    def __repr__(s): return str(s.v)


class CFP(Val):
    """floating constant; .bits is the IEEE double bit pattern (int) when known, .f the python float"""
    def __init__(s, f, bits=None): s.f = f; s.bits = bits
    def __repr__(s): return repr(s.f)


class CNull(Val):
    def __repr__(s): return 'null'


class CUndef(Val):
    def __repr__(s): return 'undef'


class CZero(Val):
    def __repr__(s): return 'zeroinitializer'


class CStr(Val):
    def __init__(s, bs): s.bs = bs
    def __repr__(s): return 'c' + repr(bytes(s.bs))


class CAgg(Val):
    """array / struct constant: list of (type, val)"""
    def __init__(s, els, kind): s.els = els; s.kind = kind


class CExpr(Val):
    """constant expression: op in {getelementptr, cast ops, binops}"""
    def __init__(s, op, **kw): s.op = op; s.__dict__.update(kw)


class Instr:
    def __init__(s, op, dst=None, **kw):
        s.op = op; s.dst = dst; s.flags = set(); s.__dict__.update(kw)
    def __repr__(s): return '<%s %s>' % (s.op, s.dst)


class Block:
    def __init__(s, label): s.label = label; s.phis = []; s.ins = []; s.term = None


class Function:
    def __init__(s, name, ftype, pnames): s.name = name; s.ftype = ftype; s.pnames = pnames; s.blocks = []; s.bmap = {}


class GlobalVar:
    def __init__(s, name, ty, init, const, ext): s.name = name; s.ty = ty; s.init = init; s.const = const; s.ext = ext


CASTS = {'trunc', 'zext', 'sext', 'fptoui', 'fptosi', 'uitofp', 'sitofp', 'fptrunc', 'fpext', 'ptrtoint', 'inttoptr',
         'bitcast', 'addrspacecast'}
BINOPS = {'add', 'sub', 'mul', 'udiv', 'urem', 'sdiv', 'srem', 'and', 'or', 'xor', 'shl', 'lshr', 'ashr', 'fadd',
          'fsub', 'fmul', 'fdiv', 'frem'}


class P:
    def __init__(s, toks): s.t = toks; s.i = 0
    def peek(s, k=0): return s.t[s.i + k] if s.i + k < len(s.t) else ('eof', '')
    def next(s): x = s.peek(); s.i += 1; return x
    def at(s, v): return s.peek()[1] == v
    def eat(s, v):
        if s.at(v): s.i += 1; return True
        return False
    def expect(s, v):
        if not s.eat(v):
            raise SyntaxError("expected %r got %r near %r" % (v, s.peek(), s.t[max(0, s.i - 10):s.i + 5]))
    def skip_attrs(s):
        while True:
            k, v = s.peek()
            if k == 'word' and v in PARAM_ATTRS: s.i += 1; continue
            if k == 'word' and v in ('align', 'dereferenceable', 'dereferenceable_or_null'):
                s.i += 1
                if s.eat('('): s.next(); s.expect(')')
                else: s.next()
                continue
            if k == 'word' and v in ('byval', 'sret', 'byref', 'elementtype', 'preallocated', 'inalloca'):
                s.i += 1; s.expect('('); s.type(); s.expect(')'); continue
            break
    def skip_words(s, flags=None):
        while s.peek()[0] == 'word' and s.peek()[1] in SKIP_WORDS:
            w = s.next()[1]
            if flags is not None: flags.add(w)
    def type(s):
        k, v = s.next()
        if k == 'word':
            if re.fullmatch(r'i\d+', v): t = TInt(int(v[1:]))
            elif v in ('float', 'double', 'x86_fp80', 'half', 'fp128'): t = TFloat(v)
            elif v == 'void': t = TVoid()
            elif v == 'opaque': t = TOpaque()
            elif v in ('label', 'metadata', 'token'): t = TVoid()
            else: raise SyntaxError("type? %r" % v)
        elif k == 'lid': t = TNamed(v)
        elif v == '[':
            n = int(s.next()[1]); assert s.next()[1] == 'x'; el = s.type(); s.expect(']'); t = TArr(n, el)
        elif v == '<' and not s.at('{'):
            n = int(s.next()[1]); assert s.next()[1] == 'x'; el = s.type(); s.expect('>'); t = TVec(n, el)
        elif v == '{' or (v == '<' and s.at('{')):
            packed = v == '<'
            if packed: s.next()
            els = []
            if not s.at('}'):
                els.append(s.type())
                while s.eat(','): els.append(s.type())
            s.expect('}')
            if packed: s.expect('>')
            t = TStruct(els, packed)
        else:
            raise SyntaxError("type? %r %r" % (k, v))
        while True:
            if s.eat('*'): t = TPtr(t)
            elif s.at('('):
                s.next(); args = []; va = False
                if not s.at(')'):
                    while True:
                        if s.at('...'): s.next(); va = True; break
                        args.append(s.type()); s.skip_attrs()
                        if s.peek()[0] == 'lid': s.next()
                        if not s.eat(','): break
                s.expect(')'); t = TFunc(t, args, va)
            else:
                break
        return t


def fp_from_token(v, ty):
    if v.startswith('0xK') or v.startswith('0xL') or v.startswith('0xM') or v.startswith('0xH') or v.startswith('0xR'):
        raise NotImplementedError('non-double hex float constant ' + v)
    if v.startswith('0x'):
        bits = int(v, 16)
        return CFP(struct.unpack('<d', struct.pack('<Q', bits))[0], bits)
    f = float(v)
    return CFP(f, struct.unpack('<Q', struct.pack('<d', f))[0])


class Module:
    def __init__(s, text):
        s.named = {}; s.gl = {}; s.fn = {}; s.funcs = {}; s.order = []
        s._parse(text)

    def resolve(s, t):
        while isinstance(t, TNamed):
            t = s.named[t.name]
        return t

    # ---- layout (x86-64 SysV)
    def sizeof(s, t):
        return s.size_align(t)[0]

    def size_align(s, t):
        t = s.resolve(t)
        if isinstance(t, TInt):
            n = max(1, (t.n + 7) // 8)
            n2 = 1
            while n2 < n: n2 *= 2
            return n2, min(n2, 8) if n2 <= 8 else 16
        if isinstance(t, TFloat):
            return {'float': (4, 4), 'double': (8, 8), 'x86_fp80': (16, 16), 'half': (2, 2), 'fp128': (16, 16)}[t.k]
        if isinstance(t, TPtr): return 8, 8
        if isinstance(t, TArr):
            sz, al = s.size_align(t.el); return sz * t.n, al
        if isinstance(t, TStruct):
            off = 0; mal = 1
            for e in t.els:
                sz, al = s.size_align(e)
                if t.packed: al = 1
                off = (off + al - 1) // al * al; off += sz; mal = max(mal, al)
            off = (off + mal - 1) // mal * mal
            return off, mal
        if isinstance(t, TVec):
            sz, al = s.size_align(t.el); return sz * t.n, sz * t.n
        raise NotImplementedError('sizeof ' + t.key())

    def field_offset(s, t, i):
        t = s.resolve(t)
        off = 0
        for k, e in enumerate(t.els):
            sz, al = s.size_align(e)
            if t.packed: al = 1
            off = (off + al - 1) // al * al
            if k == i: return off
            off += sz
        raise IndexError

    # ---- parsing
    def _parse(s, text):
        lines = text.split('\n')
        for ln in lines:
            if ln.startswith('%') and ' = type ' in ln:
                p = P(lex(ln)); nm = p.next()[1]; p.expect('='); p.expect('type'); s.named[nm] = p.type()
        i = 0
        fdefs = []
        while i < len(lines):
            ln = lines[i]
            if ln.startswith('@'):
                s._parse_global(ln)
            elif ln.startswith('declare '):
                p = P(lex(ln)); p.next()
                name, ft, _ = s._parse_sig(p)
                s.fn.setdefault(name, (ft, False))
            elif ln.startswith('define '):
                j = i
                while lines[j] != '}': j += 1
                fdefs.append(lines[i:j + 1]); i = j
                p = P(lex(fdefs[-1][0].rstrip().rstrip('{'))); p.next()
                name, ft, _ = s._parse_sig(p); s.fn[name] = (ft, True)
            i += 1
        for fl in fdefs:
            f = s._parse_function(fl)
            s.funcs[f.name] = f; s.order.append(f.name)

    def _parse_sig(s, p):
        while p.peek()[0] == 'word' and (p.peek()[1] in SKIP_WORDS or p.peek()[1] in PARAM_ATTRS): p.next()
        ret = p.type(); p.skip_attrs()
        name = p.next()[1]
        p.expect('('); args = []; names = []; va = False
        if not p.at(')'):
            while True:
                if p.at('...'): p.next(); va = True; break
                args.append(p.type()); p.skip_attrs()
                if p.peek()[0] == 'lid': names.append(p.next()[1])
                else: names.append(None)
                if not p.eat(','): break
        p.expect(')')
        return name, TFunc(ret, args, va), names

    def _parse_global(s, ln):
        p = P(lex(ln)); name = p.next()[1]; p.expect('=')
        ext = False
        while True:
            k, v = p.peek()
            if k == 'word' and v in SKIP_WORDS:
                if v in ('external', 'extern_weak'): ext = True
                p.next(); continue
            if k == 'word' and v == 'thread_local':
                p.next()
                if p.eat('('): p.next(); p.expect(')')
                continue
            break
        k, v = p.next()
        if v == 'alias' or v == 'ifunc':
            return
        const = (v == 'constant')
        t = p.type(); init = None
        if not ext and p.peek()[0] != 'eof' and not p.at(','):
            init = s.value(p, t)
        s.gl[name] = GlobalVar(name, t, init, const, ext)

    def value(s, p, t):
        """parse an operand / constant of type t"""
        rt = s.resolve(t)
        k, v = pk = p.peek()
        if k == 'lid': p.next(); return Local(v)
        if k == 'gid': p.next(); return GlobalRef(v)
        if k == 'num':
            p.next()
            if isinstance(rt, TFloat): return fp_from_token(v, rt)
            if isinstance(rt, TInt): return CInt(int(v))
            raise SyntaxError("num for %s" % rt.key())
        if k == 'word':
            if v in ('true', 'false'): p.next(); return CInt(1 if v == 'true' else 0)
            if v == 'null': p.next(); return CNull()
            if v in ('undef', 'poison'): p.next(); return CUndef()
            if v == 'zeroinitializer': p.next(); return CZero()
            if v == 'getelementptr':
                p.next(); inb = p.eat('inbounds'); p.expect('(')
                bt = p.type(); p.expect(',')
                pt = p.type(); base = s.value(p, pt); idx = []
                while p.eat(','):
                    p.eat('inrange'); it = p.type(); idx.append((it, s.value(p, it)))
                p.expect(')')
                return CExpr('getelementptr', bt=bt, pt=pt, base=base, idx=idx)
            if v in CASTS:
                p.next(); p.expect('('); ft = p.type(); e = s.value(p, ft); p.expect('to'); tt = p.type(); p.expect(')')
                return CExpr(v, ft=ft, v=e, tt=tt)
            if v in BINOPS:
                p.next(); fl = set(); p.skip_words(fl)
                p.expect('('); t1 = p.type(); a = s.value(p, t1); p.expect(','); t2 = p.type(); b = s.value(p, t2)
                p.expect(')')
                return CExpr(v, ty=t1, a=a, b=b, flags=fl)
            if v in ('icmp', 'fcmp'):
                p.next(); cc = p.next()[1]
                p.expect('('); t1 = p.type(); a = s.value(p, t1); p.expect(','); t2 = p.type(); b = s.value(p, t2)
                p.expect(')')
                return CExpr(v, cc=cc, ty=t1, a=a, b=b)
        if k == 'str':
            p.next(); raw = v[2:-1]; bs = []; j = 0
            while j < len(raw):
                if raw[j] == '\\' and raw[j + 1] == '\\': bs.append(0x5c); j += 2
                elif raw[j] == '\\': bs.append(int(raw[j + 1:j + 3], 16)); j += 3
                else: bs.append(ord(raw[j])); j += 1
            return CStr(bs)
        if v == '[' and isinstance(rt, TArr):
            p.next(); els = []
            if not p.at(']'):
                while True:
                    et = p.type(); els.append((et, s.value(p, et)))
                    if not p.eat(','): break
            p.expect(']'); return CAgg(els, 'arr')
        if v in ('{', '<') and isinstance(rt, TStruct):
            p.next()
            if v == '<': p.expect('{')
            els = []
            if not p.at('}'):
                while True:
                    et = p.type(); els.append((et, s.value(p, et)))
                    if not p.eat(','): break
            p.expect('}')
            if v == '<': p.expect('>')
            return CAgg(els, 'struct')
        if v == '<' and isinstance(rt, TVec):
            p.next(); els = []
            while True:
                et = p.type(); els.append((et, s.value(p, et)))
                if not p.eat(','): break
            p.expect('>'); return CAgg(els, 'vec')
        raise SyntaxError("value %r for %s" % (pk, t.key()))

    def _parse_function(s, lines):
        merged = []; acc = None
        for ln in lines:
            if acc is not None:
                acc += ' ' + ln.strip()
                if ln.strip() == ']': merged.append(acc); acc = None
                continue
            if ln.lstrip().startswith('switch ') and ln.rstrip().endswith('['): acc = ln; continue
            merged.append(ln)
        lines = merged
        p = P(lex(lines[0].rstrip().rstrip('{'))); p.next()
        name, ft, pnames = s._parse_sig(p)
        pnames = [n if n else '%' + str(i) for i, n in enumerate(pnames)]
        f = Function(name, ft, pnames)
        cur = Block('%' + str(len(ft.args)))
        # if first block is explicitly labelled, it replaces this implicit one
        first = True
        for ln in lines[1:-1]:
            ln = ln.strip()
            if not ln or ln.startswith(';'): continue
            m = re.match(r'^([-a-zA-Z$._0-9]+|"[^"]*"):', ln)
            if m:
                lab = '%' + m.group(1)
                if first and not cur.ins and not cur.phis and cur.term is None:
                    cur = Block(lab)
                else:
                    f.blocks.append(cur); cur = Block(lab)
                first = False
                continue
            first = False
            ins = s._parse_instr(ln)
            if ins is None: continue
            if ins.op == 'phi': cur.phis.append(ins)
            elif ins.op in ('br', 'ret', 'switch', 'unreachable'): cur.term = ins
            else: cur.ins.append(ins)
        f.blocks.append(cur)
        for b in f.blocks: f.bmap[b.label] = b
        return f

    def _parse_instr(s, ln):
        toks = lex(ln)
        cut = len(toks)
        for qi, (k, v) in enumerate(toks):
            if k == 'meta' and qi > 0 and toks[qi - 1][1] == ',': cut = qi - 1; break
        toks = [t for t in toks[:cut] if t[0] != 'attr']
        p = P(toks); dst = None
        if p.peek()[0] == 'lid' and p.peek(1)[1] == '=':
            dst = p.next()[1]; p.next()
        while p.peek()[1] in ('tail', 'musttail', 'notail'): p.next()
        op = p.next()[1]
        flags = set(); p.skip_words(flags)
        I = None
        if op == 'alloca':
            t = p.type(); cnt = None
            if p.eat(','):
                if not p.at('align'):
                    it = p.type(); cnt = (it, s.value(p, it))
            I = Instr('alloca', dst, ty=t, cnt=cnt)
        elif op == 'load':
            t = p.type(); p.expect(','); pt = p.type(); a = s.value(p, pt)
            I = Instr('load', dst, ty=t, pt=pt, ptr=a)
        elif op == 'store':
            t = p.type(); v = s.value(p, t); p.expect(','); pt = p.type(); a = s.value(p, pt)
            I = Instr('store', None, ty=t, val=v, pt=pt, ptr=a)
        elif op == 'getelementptr':
            bt = p.type(); p.expect(','); pt = p.type(); base = s.value(p, pt); idx = []
            while p.eat(','):
                it = p.type(); idx.append((it, s.value(p, it)))
            I = Instr('getelementptr', dst, bt=bt, pt=pt, base=base, idx=idx)
            I.rty = TPtr(s.gep_type(bt, idx))
        elif op in BINOPS:
            t = p.type(); a = s.value(p, t); p.expect(','); b = s.value(p, t)
            I = Instr(op, dst, ty=t, a=a, b=b)
        elif op == 'fneg':
            t = p.type(); a = s.value(p, t); I = Instr('fneg', dst, ty=t, a=a)
        elif op in ('icmp', 'fcmp'):
            cc = p.next()[1]; t = p.type(); a = s.value(p, t); p.expect(','); b = s.value(p, t)
            I = Instr(op, dst, cc=cc, ty=t, a=a, b=b)
        elif op in CASTS:
            ft = p.type(); e = s.value(p, ft); p.expect('to'); tt = p.type()
            I = Instr(op, dst, ft=ft, v=e, tt=tt)
        elif op == 'select':
            ct = p.type(); c = s.value(p, ct); p.expect(','); t = p.type(); a = s.value(p, t); p.expect(',')
            p.type(); b = s.value(p, t)
            I = Instr('select', dst, c=c, ty=t, a=a, b=b)
        elif op == 'freeze':
            t = p.type(); a = s.value(p, t); I = Instr('freeze', dst, ty=t, a=a)
        elif op == 'extractvalue':
            t = p.type(); a = s.value(p, t); path = []
            while p.eat(','): path.append(int(p.next()[1]))
            I = Instr('extractvalue', dst, ty=t, a=a, path=path); I.rty = s.agg_type(t, path)
        elif op == 'insertvalue':
            t = p.type(); a = s.value(p, t); p.expect(','); vt = p.type(); v = s.value(p, vt); path = []
            while p.eat(','): path.append(int(p.next()[1]))
            I = Instr('insertvalue', dst, ty=t, a=a, vt=vt, v=v, path=path)
        elif op == 'phi':
            t = p.type(); inc = []
            while True:
                p.expect('['); v = s.value(p, t); p.expect(','); pred = p.next()[1]; p.expect(']')
                inc.append((pred, v))
                if not p.eat(','): break
            I = Instr('phi', dst, ty=t, inc=inc)
        elif op == 'br':
            if p.at('label'):
                p.next(); I = Instr('br', None, c=None, a=p.next()[1], b=None)
            else:
                t = p.type(); c = s.value(p, t); p.expect(','); p.expect('label'); a = p.next()[1]; p.expect(',')
                p.expect('label'); b = p.next()[1]
                I = Instr('br', None, c=c, a=a, b=b)
        elif op == 'ret':
            t = p.type()
            I = Instr('ret', None, ty=t, v=None if isinstance(t, TVoid) else s.value(p, t))
        elif op == 'switch':
            t = p.type(); v = s.value(p, t); p.expect(','); p.expect('label'); dflt = p.next()[1]; p.expect('[')
            cases = []
            while not p.at(']'):
                ct = p.type(); cv = s.value(p, ct); p.expect(','); p.expect('label'); cases.append((cv.v, p.next()[1]))
            p.expect(']')
            I = Instr('switch', None, ty=t, v=v, dflt=dflt, cases=cases)
        elif op == 'unreachable':
            I = Instr('unreachable')
        elif op == 'call':
            p.skip_attrs()
            rt = p.type(); p.skip_attrs()
            ck, cv = p.next()
            callee = GlobalRef(cv) if ck == 'gid' else Local(cv)
            ret = rt.ret if isinstance(rt, TFunc) else rt
            p.expect('('); args = []
            if not p.at(')'):
                while True:
                    at = p.type(); p.skip_attrs(); args.append((at, s.value(p, at)))
                    if not p.eat(','): break
            p.expect(')')
            I = Instr('call', dst if not isinstance(ret, TVoid) else None, callee=callee, ret=ret, args=args,
                      fty=rt if isinstance(rt, TFunc) else None)
        else:
            raise NotImplementedError("opcode %s: %s" % (op, ln))
        I.flags = flags
        return I

    def gep_type(s, bt, idx):
        cur = bt
        for it, ix in idx[1:]:
            r = s.resolve(cur)
            if isinstance(r, TStruct): cur = r.els[ix.v]
            else: cur = r.el
        return cur

    def agg_type(s, t, path):
        cur = t
        for i in path:
            r = s.resolve(cur)
            cur = r.els[i] if isinstance(r, TStruct) else r.el
        return cur


def instr_result_type(m, I):
    op = I.op
    if op == 'alloca': return TPtr(I.ty)
    if op == 'load': return I.ty
    if op == 'getelementptr': return I.rty
    if op in BINOPS or op in ('fneg', 'select', 'phi', 'freeze'): return I.ty
    if op in ('icmp', 'fcmp'): return TInt(1)
    if op in CASTS: return I.tt
    if op == 'extractvalue': return I.rty
    if op == 'insertvalue': return I.ty
    if op == 'call': return I.ret
    return None


def operands(I):
    """all Val operands of an instruction (for use counting)"""
    op = I.op; r = []
    if op == 'alloca':
        if I.cnt: r.append(I.cnt[1])
    elif op == 'load': r.append(I.ptr)
    elif op == 'store': r += [I.val, I.ptr]
    elif op == 'getelementptr': r.append(I.base); r += [v for _, v in I.idx]
    elif op in BINOPS or op in ('icmp', 'fcmp'): r += [I.a, I.b]
    elif op in ('fneg', 'freeze'): r.append(I.a)
    elif op in CASTS: r.append(I.v)
    elif op == 'select': r += [I.c, I.a, I.b]
    elif op == 'extractvalue': r.append(I.a)
    elif op == 'insertvalue': r += [I.a, I.v]
    elif op == 'phi': r += [v for _, v in I.inc]
    elif op == 'br':
        if I.c is not None: r.append(I.c)
    elif op == 'ret':
        if I.v is not None: r.append(I.v)
    elif op == 'switch': r.append(I.v)
    elif op == 'call':
        r.append(I.callee); r += [v for _, v in I.args]
    return r


def locals_in(v, acc):
    if isinstance(v, Local): acc.append(v.name)
    elif isinstance(v, CExpr):
        for k in ('base', 'v', 'a', 'b'):
            if hasattr(v, k): locals_in(getattr(v, k), acc)
        for _, x in getattr(v, 'idx', []): locals_in(x, acc)
    elif isinstance(v, CAgg):
        for _, x in v.els: locals_in(x, acc)


if __name__ == '__main__':
    import sys
    m = Module(open(sys.argv[1]).read())
    print(len(m.funcs), 'functions', len(m.gl), 'globals', len(m.named), 'types')
