#!/usr/bin/env python3
"""Runner core: builds encodings from /repo's working tree, runs CBMC, replays counterexamples natively,
applies the known-findings protocol and writes evidence."""
import os, re, sys, json, time, shutil, signal, subprocess, tempfile, threading, resource, hashlib
from concurrent.futures import ThreadPoolExecutor

VERIF = os.path.dirname(os.path.dirname(os.path.abspath(__file__)))
REPO = os.environ.get('VF_REPO', '/repo')
SRC = os.path.join(REPO, 'src')
SUPPORT = os.path.join(VERIF, 'support')
HARNESS = os.path.join(VERIF, 'harness')
NCPU = int(os.environ.get('VF_JOBS', '16'))
CPPFLAGS = ['-DHAVE_CONFIG_H', '-D__NO_CTYPE', '-I' + REPO, '-I' + SRC, '-I' + SUPPORT, '-I' + HARNESS]

TRUSTED_BASE = ['cbmc 6.11.0 (symex, SAT back end, its models of mem*/str*/malloc)', 'clang-14 front end (-O0) + opt -mem2reg -loop-simplify',
                'vf/ll2c.py IR->C translator (validated: whole library compiled from its output passes the repository test-suite)',
                'environment stubs and oracles written in the harness sources (listed per obligation)',
                'gcc + AddressSanitizer/UBSan for replay']


class Ctx:
    """per-invocation build context (scratch dir is removed at exit)"""
    def __init__(s):
        s.dir = tempfile.mkdtemp(prefix='vf-')
        s.lock = threading.Lock()
        s._libll = None; s._asan = None
        s.t0 = time.time()

    def close(s):
        if os.environ.get('VF_KEEP'):
            print('kept', s.dir); return
        shutil.rmtree(s.dir, ignore_errors=True)

    def lib_sources(s):
        return sorted(f for f in os.listdir(SRC) if f.startswith('vna') and f.endswith('.c') and 'example' not in f)

    def lib_ll(s):
        """compile every library TU to LLVM IR (once per invocation, from the current working tree)"""
        with s.lock:
            if s._libll is None:
                d = os.path.join(s.dir, 'll'); os.makedirs(d)
                def one(f):
                    out = os.path.join(d, f[:-2] + '.ll')
                    r = subprocess.run(['clang-14', '-w', '-O0', '-Xclang', '-disable-O0-optnone', '-S', '-emit-llvm'] + CPPFLAGS +
                                       [os.path.join(SRC, f), '-o', out], capture_output=True, text=True)
                    if r.returncode != 0: raise RuntimeError('clang failed on %s: %s' % (f, r.stderr[-2000:]))
                    return f, out
                with ThreadPoolExecutor(NCPU) as ex:
                    s._libll = dict(ex.map(one, s.lib_sources()))
                cm = os.path.join(d, 'vf_cmath.ll')
                r = subprocess.run(['clang-14', '-w', '-O0', '-Xclang', '-disable-O0-optnone', '-fno-builtin', '-S', '-emit-llvm',
                                    os.path.join(SUPPORT, 'vf_cmath.c'), '-o', cm], capture_output=True, text=True)
                if r.returncode != 0: raise RuntimeError('clang vf_cmath: ' + r.stderr[-2000:])
                s._libll['vf_cmath.c'] = cm
            return s._libll

    def asan_lib(s):
        """native ASan/UBSan build of the unmodified library sources (for replay)"""
        with s.lock:
            if s._asan is None:
                d = os.path.join(s.dir, 'asan'); os.makedirs(d)
                def one(f):
                    out = os.path.join(d, f[:-2] + '.o')
                    r = subprocess.run(['gcc', '-w', '-O0', '-g', '-fsanitize=address,undefined', '-fno-omit-frame-pointer',
                                        '-DHAVE_CONFIG_H', '-I' + REPO, '-I' + SRC, '-c', os.path.join(SRC, f), '-o', out],
                                       capture_output=True, text=True)
                    if r.returncode != 0: raise RuntimeError('gcc failed on %s: %s' % (f, r.stderr[-2000:]))
                    return out
                with ThreadPoolExecutor(NCPU) as ex:
                    objs = list(ex.map(one, s.lib_sources()))
                lib = os.path.join(d, 'libvna_asan.a')
                subprocess.run(['ar', 'rcs', lib] + objs, check=True)
                s._asan = lib
            return s._asan


def limited(mem_gb):
    def f():
        os.setsid()
        if mem_gb is None: return
        resource.setrlimit(resource.RLIMIT_AS, (int(mem_gb * (1 << 30)), int(mem_gb * (1 << 30))))
    return f


def run(cmd, timeout, mem_gb=12, cwd=None, env=None):
    t0 = time.time()
    try:
        p = subprocess.Popen(cmd, stdout=subprocess.PIPE, stderr=subprocess.STDOUT, text=True, errors='replace',
                             preexec_fn=limited(mem_gb), cwd=cwd, env=env)
        try:
            out, _ = p.communicate(timeout=timeout)
            return p.returncode, out, time.time() - t0
        except subprocess.TimeoutExpired:
            try: os.killpg(p.pid, signal.SIGKILL)
            except Exception: pass
            out, _ = p.communicate()
            return 'timeout', out or '', time.time() - t0
    except Exception as e:
        return 'error', str(e), time.time() - t0


class Ob:
    """one solver obligation = one CBMC run on one harness at one shape"""
    def __init__(s, oid, harness, engine='N', defs=None, unwind=4, unwindset=(), flags=(), nsrcs=(), ovr=(), uf=False,
                 leak=False, timeout=None, functions=(), bounds='', stubs=(), mem_gb=12, nomallocfail=True, what='',
                 drop_checks=False, extra_ll=(), optional_witnesses=(), exclude=(), alloc_hook=False):
        s.alloc_hook = alloc_hook
        s.exclude = list(exclude)
        s.optional_witnesses = list(optional_witnesses)
        s.id = oid; s.harness = harness; s.engine = engine; s.defs = dict(defs or {}); s.unwind = unwind
        s.unwindset = list(unwindset); s.flags = list(flags); s.nsrcs = list(nsrcs); s.ovr = list(ovr); s.uf = uf
        s.leak = leak; s.timeout = timeout; s.functions = list(functions); s.bounds = bounds; s.stubs = list(stubs)
        s.mem_gb = mem_gb; s.nomallocfail = nomallocfail; s.what = what; s.drop_checks = drop_checks

    def defflags(s):
        return ['-D%s=%s' % (k, v) if v is not None else '-D%s' % k for k, v in s.defs.items()]


def included_c_files(path):
    txt = open(path).read()
    return [os.path.basename(m) for m in re.findall(r'#include\s+"([^"]+\.c)"', txt)]


def build_L(ctx, ob, wd):
    """clang -> llvm-link -> opt -> ll2c; returns path of generated C"""
    libll = ctx.lib_ll()
    h = os.path.join(HARNESS, ob.harness)
    hl = os.path.join(wd, 'h.ll')
    r = subprocess.run(['clang-14', '-w', '-O0', '-Xclang', '-disable-O0-optnone', '-S', '-emit-llvm', '-DVF_CBMC', '-DVF_LROUTE'] + CPPFLAGS +
                       ob.defflags() + [h, '-o', hl], capture_output=True, text=True)
    if r.returncode != 0: raise RuntimeError('clang harness: ' + r.stderr[-3000:])
    inc = set(included_c_files(h)) | set(ob.exclude)
    libs = [p for f, p in sorted(libll.items()) if f not in inc]
    al = os.path.join(wd, 'all.ll')
    r = subprocess.run(['llvm-link-14', '-S', hl] + libs + ['-o', al], capture_output=True, text=True)
    if r.returncode != 0: raise RuntimeError('llvm-link: ' + r.stderr[-3000:])
    ml = os.path.join(wd, 'm2r.ll')
    r = subprocess.run(['opt-14', '-S', '-internalize', '-internalize-public-api-list=harness,vf_alloc_hook', '-globaldce', '-mem2reg',
                        '-loop-simplify', al, '-o', ml], capture_output=True, text=True)
    if r.returncode != 0: raise RuntimeError('opt: ' + r.stderr[-3000:])
    gc = os.path.join(wd, 'gen.c')
    cmd = [sys.executable, os.path.join(VERIF, 'vf', 'll2c.py'), ml]
    if ob.uf: cmd.append('--uf' if ob.uf is True or ob.uf == 'all' else '--uf-muldiv')
    if ob.ovr: cmd += ['--ovr', ','.join(ob.ovr)]
    if ob.alloc_hook: cmd.append('--alloc-hook')
    r = subprocess.run(cmd, capture_output=True, text=True)
    if r.returncode != 0: raise RuntimeError('ll2c: ' + r.stderr[-3000:])
    open(gc, 'w').write(r.stdout)
    return gc


RES = re.compile(r'^\[([^\]]+)\] (.*): (SUCCESS|FAILURE|UNKNOWN)$', re.M)


def cbmc_cmd(ob, files, trace=False):
    cmd = ['cbmc'] + files + ['--function', 'harness', '--unwind', str(ob.unwind), '--unwinding-assertions',
                              '--drop-unused-functions', '--object-bits', '12', '--verbosity', '6']
    for u in ob.unwindset: cmd += ['--unwindset', u]
    if not ob.drop_checks:
        cmd += ['--pointer-overflow-check', '--signed-overflow-check', '--undefined-shift-check']
    if ob.nomallocfail: cmd.append('--no-malloc-may-fail')
    if ob.leak: cmd.append('--memory-leak-check')
    cmd += ob.flags
    if trace: cmd += ['--trace']
    return cmd


def classify(desc):
    if 'VF-WITNESS' in desc: return 'witness'
    if 'unwinding assertion' in desc: return 'unwind'
    if 'pointer arithmetic' in desc or 'pointer relation' in desc: return 'ptrarith'
    return 'prop'


def parse_tape(trace_text):
    tl = {}; td = {}
    for m in re.finditer(r'vf_tape_l(?:\.a)?\[(\d+)l?\]=(-?\d+)', trace_text):
        v = int(m.group(2)); tl[int(m.group(1))] = v - (1 << 64) if v >= (1 << 63) else v
    for m in re.finditer(r'vf_tape_d(?:\.a)?\[(\d+)l?\]=[^\n(]*\(([01 ]+)\)', trace_text):
        td[int(m.group(1))] = int(m.group(2).replace(' ', ''), 2)
    return tl, td


def solve(ctx, ob, tier):
    """returns dict(verdict=pass|fail|incomplete|error, failed=[...], witness=..., time=..., ...)"""
    wd = os.path.join(ctx.dir, re.sub(r'[^A-Za-z0-9_.-]', '_', ob.id)); os.makedirs(wd, exist_ok=True)
    res = {'id': ob.id, 'engine': ob.engine, 'harness': ob.harness, 'defs': ob.defs, 'unwind': ob.unwind, 'what': ob.what}
    t0 = time.time()
    try:
        if ob.engine == 'L':
            files = [build_L(ctx, ob, wd)]
            pre = []
        else:
            files = [os.path.join(HARNESS, ob.harness)] + [os.path.join(SRC, f) for f in ob.nsrcs]
            pre = ['-DVF_CBMC'] + CPPFLAGS + ob.defflags()
    except Exception as e:
        res.update(verdict='error', detail=str(e)[-3000:], time=time.time() - t0); return res
    res['build_s'] = round(time.time() - t0, 2)
    timeout = ob.timeout or (120 if tier == 'quick' else 900)
    cmd = cbmc_cmd(ob, pre + files)
    res['cmd'] = ' '.join(c.replace(ctx.dir, '$WD') for c in cmd)
    rc, out, dt = run(cmd, timeout, ob.mem_gb)
    res['solver_s'] = round(dt, 2)
    if rc == 'timeout':
        res.update(verdict='incomplete', detail='timeout after %ds' % timeout); return res
    results = RES.findall(out)
    if rc not in (0, 10) or not results:
        res.update(verdict='error', detail='cbmc rc=%s: %s' % (rc, out[-3000:])); return res
    m = re.search(r'(\d+) variables, (\d+) clauses', out)
    if m: res['sat_vars'] = int(m.group(1)); res['sat_clauses'] = int(m.group(2))
    res['properties'] = len(results)
    failed = [(n, d) for n, d, v in results if v == 'FAILURE']
    wit_all = [(n, d) for n, d, v in results if classify(d) == 'witness' and not any(w in d for w in ob.optional_witnesses)]
    wit_ok = [(n, d) for n, d, v in results if (n, d) in wit_all and v == 'FAILURE']
    res['witnesses'] = len(wit_all); res['witnesses_reached'] = len(wit_ok)
    res['labels_reached'] = sorted(set(re.sub(r'^.*VF-WITNESS ', '', d) for n, d, v in results if classify(d) == 'witness' and v == 'FAILURE'))
    bad = [(n, d) for n, d in failed if classify(d) == 'prop']
    unw = [(n, d) for n, d in failed if classify(d) == 'unwind']
    ptr = [(n, d) for n, d in failed if classify(d) == 'ptrarith']
    res['ptrarith_notes'] = [d for n, d in ptr][:5]
    res['failed'] = [d for n, d in bad]; res['unwind_failed'] = [d for n, d in unw]
    if not bad and not unw and (not wit_all or len(wit_ok) != len(wit_all)):
        res.update(verdict='error', detail='vacuity: witnesses reached %d of %d: %s' % (
            len(wit_ok), len(wit_all), [d for n, d in wit_all if (n, d) not in wit_ok]))
        return res
    if not bad and not unw:
        res['verdict'] = 'pass'; return res
    # counterexample(s): get traces (one run with --trace), replay each distinct failing property
    cmd = cbmc_cmd(ob, pre + files, trace=True)
    rc2, out2, dt2 = run(cmd, timeout * 2, ob.mem_gb)
    res['solver_s'] = round(dt + dt2, 2)
    cex = []
    if rc2 == 10:
        parts = re.split(r'\nTrace for ([^\n:]+):\n', out2)
        traces = dict(zip(parts[1::2], parts[2::2]))
        for n, d in (bad + unw)[:6]:
            tr = traces.get(n)
            if tr is None: continue
            tl, td = parse_tape(tr)
            cex.append({'property': n, 'desc': d, 'kind': classify(d), 'tape_l': tl, 'tape_d': td})
    res['cex'] = cex
    res['verdict'] = 'fail'
    return res


def tape_text(c):
    return ''.join('l %d %d\n' % (k, v) for k, v in sorted(c['tape_l'].items())) + \
           ''.join('d %d %016x\n' % (k, v) for k, v in sorted(c['tape_d'].items()))


def native_build(ctx, ob, outdir):
    """compile the ORIGINAL harness against the unmodified library sources with ASan/UBSan"""
    lib = ctx.asan_lib()
    exe = os.path.join(outdir, 'replay')
    cmd = ['gcc', '-w', '-O0', '-g', '-fsanitize=address,undefined', '-fno-omit-frame-pointer', '-DVF_NATIVE', '-DHAVE_CONFIG_H',
           '-I' + REPO, '-I' + SRC, '-I' + SUPPORT, '-I' + HARNESS] + ob.defflags() + \
          [os.path.join(HARNESS, ob.harness), os.path.join(SUPPORT, 'vf_native.c'), '-Wl,--allow-multiple-definition', '-Wl,--wrap=malloc,--wrap=calloc,--wrap=realloc', lib,
           '-lyaml', '-lm', '-o', exe]
    r = subprocess.run(cmd, capture_output=True, text=True)
    if r.returncode != 0: raise RuntimeError('native build: ' + r.stderr[-3000:])
    return exe, cmd


def replay(ctx, ob, c, outdir):
    """run the counterexample natively; returns ('confirmed', how) | ('unconfirmed', why)"""
    os.makedirs(outdir, exist_ok=True)
    tape = os.path.join(outdir, 'tape.txt'); open(tape, 'w').write(tape_text(c))
    try:
        exe, cmd = native_build(ctx, ob, outdir)
    except Exception as e:
        return 'unconfirmed', 'native build failed: %s' % e, ''
    env = dict(os.environ, VF_TAPE=tape, ASAN_OPTIONS='detect_leaks=1:abort_on_error=0:exitcode=99', UBSAN_OPTIONS='print_stacktrace=0:halt_on_error=0')
    rc, out, dt = run([exe], 30, None, env=env)
    try: os.remove(exe)
    except OSError: pass
    open(os.path.join(outdir, 'native.log'), 'w').write(out[-20000:])
    open(os.path.join(outdir, 'rebuild.sh'), 'w').write('#!/bin/sh\n# rebuild + rerun this counterexample natively\n' +
        'cd %s && ./check --replay %s\n' % (VERIF, outdir))
    json.dump({'obligation': ob.id, 'harness': ob.harness, 'defs': ob.defs, 'property': c['property'], 'desc': c['desc'],
               'tape_l': c['tape_l'], 'tape_d': {k: '%016x' % v for k, v in c['tape_d'].items()}},
              open(os.path.join(outdir, 'cex.json'), 'w'), indent=1)
    if 'VF-ASSUME-FALSE' in out: return 'unconfirmed', 'native run violated an assumption', out
    if 'VF-ASSERT-FAIL' in out:
        return 'confirmed', 'assertion: ' + re.search(r'VF-ASSERT-FAIL: (.*)', out).group(1), out
    if 'ERROR: AddressSanitizer' in out or 'ERROR: LeakSanitizer' in out:
        m = re.search(r'ERROR: (AddressSanitizer|LeakSanitizer):? ([^\n]*)', out)
        if 'failed to allocate' in m.group(0): return 'unconfirmed', 'sanitizer could not start: ' + m.group(0)[:100], out
        return 'confirmed', 'sanitizer: ' + m.group(0)[:200], out
    if 'runtime error:' in out:
        return 'confirmed', 'ubsan: ' + re.search(r'runtime error: ([^\n]*)', out).group(0)[:200], out
    if rc == 'timeout' or rc == -signal.SIGALRM or (isinstance(rc, int) and rc < 0 and -rc == signal.SIGALRM):
        return 'confirmed', 'hang: native run did not terminate within 20 s', out
    if isinstance(rc, int) and rc < 0:
        return 'confirmed', 'crash: signal %d' % -rc, out
    if 'Assertion' in out and 'failed' in out:
        return 'confirmed', 'library assert(): ' + re.search(r'[^\n]*Assertion[^\n]*', out).group(0)[:200], out
    return 'unconfirmed', 'native run was clean (rc=%s)' % rc, out


def load_known():
    p = os.path.join(VERIF, 'known-findings.json')
    if os.path.exists(p):
        k = json.load(open(p)); k.pop('_comment', None); return k
    return {'open': [], 'fixed': []}


def match_known(known, pid, ob, c, how):
    for k in known.get('open', []):
        if k['property'] != pid: continue
        if 'obligation' in k and not re.search(k['obligation'], ob.id): continue
        if 'match' in k and not (re.search(k['match'], c['desc']) or re.search(k['match'], how)): continue
        return k
    return None


def run_property(pid, obligations, tier, meta):
    """meta: dict(level, functions, bounds, outside, assumptions, rule)"""
    t0 = time.time()
    ctx = Ctx()
    known = load_known()
    violations = []; known_hits = []; incomplete = []; errors = []; unconfirmed = []
    try:
        with ThreadPoolExecutor(max(1, min(meta.get('jobs', NCPU), NCPU, len(obligations)))) as ex:
            results = list(ex.map(lambda ob: solve(ctx, ob, tier), obligations))
        byid = {ob.id: ob for ob in obligations}
        for r in results:
            ob = byid[r['id']]
            if r['verdict'] == 'incomplete': incomplete.append(r)
            elif r['verdict'] == 'error': errors.append(r)
            elif r['verdict'] == 'fail':
                if not r['cex']:
                    errors.append(dict(r, detail='failed properties but no trace could be extracted: %s' % (r['failed'] + r['unwind_failed'])[:3]))
                    continue
                any_conf = False
                for c in r['cex']:
                    h = hashlib.sha1((ob.id + c['desc']).encode()).hexdigest()[:10]
                    outdir = os.path.join(VERIF, 'evidence', 'replay', '%s_%s' % (pid, h))
                    st, how, out = replay(ctx, ob, c, outdir)
                    c['replay'] = st; c['how'] = how; c['replay_dir'] = outdir
                    if st == 'confirmed':
                        if c['kind'] == 'unwind' and not how.startswith('hang'):
                            # bound too small, but something else went wrong natively: still a confirmed defect
                            pass
                        any_conf = True
                        k = match_known(known, pid, ob, c, how)
                        if k: known_hits.append((k, ob, c))
                        else: violations.append((ob, c))
                    else:
                        if c['kind'] == 'unwind': incomplete.append(dict(r, detail='unwinding bound too small: ' + c['desc']))
                        else: unconfirmed.append((ob, c))
        n = len(results)
        passed = [r for r in results if r['verdict'] == 'pass']
        # obligations whose only failures are known findings count as discharged-with-known-finding, not as passed
        ev = {
            'property_id': pid, 'tier': tier, 'seed': int(os.environ.get('VERIF_SEED', '0') or 0), 'level': meta.get('level', 'proof'),
            'coverage': {
                'obligations': n, 'discharged': len(passed),
                'evaluations': n,
                'distinct_nontrivial': len(set(r['id'] for r in passed if (meta.get('nontrivial_witness') is None or meta['nontrivial_witness'] in r.get('labels_reached', [])))),
                'rule': meta.get('rule', 'one solver query per enumerated obligation; all are distinct by construction (distinct harness / shape / plan)'),
                'checker_cmd': (results[0].get('cmd') if results else '') or 'cbmc',
                'trusted_base': TRUSTED_BASE,
                'explanation': meta.get('explanation', ''),
                'functions_encoded': sorted(set(sum([ob.functions for ob in obligations], []))),
                'bounds': meta.get('bounds', ''), 'outside': meta.get('outside', ''),
                'per_obligation_bounds': {ob.id: ob.bounds for ob in obligations if ob.bounds},
                'stubs': sorted(set(sum([ob.stubs for ob in obligations], []))),
                'solver_time_s': round(sum(r.get('solver_s', 0) for r in results), 1),
                'build_time_s': round(sum(r.get('build_s', 0) for r in results), 1),
                'front_ends': {e: sum(1 for r in results if r['engine'] == e) for e in ('N', 'L')},
                'vacuity_witnesses_failed_as_required': sum(r.get('witnesses_reached', 0) for r in results),
                'properties_checked_by_solver': sum(r.get('properties', 0) for r in results),
                'incomplete': [{'id': r['id'], 'detail': r.get('detail', '')} for r in incomplete],
                'errors': [{'id': r['id'], 'detail': r.get('detail', '')[-600:]} for r in errors],
                'known_findings_seen': [{'what': k['what'], 'obligation': ob.id, 'how': c['how']} for k, ob, c in known_hits],
                'unconfirmed_counterexamples': [{'obligation': ob.id, 'desc': c['desc'], 'why': c['how']} for ob, c in unconfirmed],
                'pointer_arithmetic_notes': sorted(set(sum([r.get('ptrarith_notes', []) for r in results], [])))[:10],
                'samples': [{'obligation': r['id'], 'what': r.get('what', ''), 'harness': r['harness'], 'defs': r['defs'], 'engine': r['engine'],
                             'verdict': r['verdict'], 'solver_s': r.get('solver_s'), 'sat_vars': r.get('sat_vars'),
                             'properties': r.get('properties'), 'cmd': r.get('cmd', '')[:600]} for r in results[:40]],
            },
            'assumptions': meta.get('assumptions', []),
            'wall_s': round(time.time() - t0, 1),
            'violations': len(violations),
        }
        if violations:
            ev['coverage']['violations'] = [{'obligation': ob.id, 'desc': c['desc'], 'how': c['how'], 'replay': c['replay_dir'],
                                            'inputs_l': c['tape_l'], 'inputs_d': {k: '%016x' % v for k, v in c['tape_d'].items()}}
                                           for ob, c in violations]
        os.makedirs(os.path.join(VERIF, 'evidence'), exist_ok=True)
        json.dump(ev, open(os.path.join(VERIF, 'evidence', pid + '.json'), 'w'), indent=1)
        for k, ob, c in known_hits:
            print('KNOWN-FINDING: property=%s %s [obligation %s: %s]' % (pid, k['what'], ob.id, c['how']))
        for ob, c in unconfirmed:
            print('UNCONFIRMED property=%s obligation=%s %s -- %s' % (pid, ob.id, c['desc'], c['how']))
        for r in incomplete:
            print('INCOMPLETE property=%s obligation=%s %s' % (pid, r['id'], r.get('detail', '')))
        for r in errors:
            print('ERROR property=%s obligation=%s %s' % (pid, r['id'], r.get('detail', '')[-1500:]))
        for ob, c in violations:
            print('VIOLATION property=%s replay=%s' % (pid, c['replay_dir']))
            print('  obligation=%s assertion=%s (%s)' % (ob.id, c['desc'], c['how']))
        print('%s %s: %d obligations, %d discharged, %d violations, %d known, %d incomplete, %d errors, %d unconfirmed, %.1fs' % (
            pid, tier, n, len(passed), len(violations), len(known_hits), len(incomplete), len(errors), len(unconfirmed), time.time() - t0))
        if violations: return 1
        if errors or incomplete or unconfirmed: return 2
        return 0
    finally:
        ctx.close()


def replay_dir(d):
    """./check --replay <dir>: rebuild the harness natively against the current /repo and re-run the recorded inputs"""
    c = json.load(open(os.path.join(d, 'cex.json')))
    ob = Ob(c['obligation'], c['harness'], defs=c['defs'])
    cc = {'property': c['property'], 'desc': c['desc'], 'tape_l': {int(k): v for k, v in c['tape_l'].items()},
          'tape_d': {int(k): int(v, 16) for k, v in c['tape_d'].items()}}
    ctx = Ctx()
    try:
        st, how, out = replay(ctx, ob, cc, d)
        print(out[-3000:])
        print('replay: %s (%s)' % (st, how))
        return 1 if st == 'confirmed' else 0
    finally:
        ctx.close()
