#!/usr/bin/env python3
"""irx: whole-flow symbolic interpreter for LLVM-14 IR (clang -O0 + mem2reg) of libvna.

Same value domain as irsym (CONCRETE integers / pointers / control flow, SYMBOLIC doubles as exact rational functions of z3
Real terms, forking on comparisons of symbolic doubles) but with a checked heap and a libc, so that complete API flows
(vnacal_new_alloc .. add_* .. solve .. apply, vnadata save / load, parsers over a concrete byte skeleton with symbolic
numbers) run on the real code.  Every load / store / free is checked against the object table (bounds, use after free,
double free, read of never-written memory) and the allocations alive at the end are reported: those verdicts hold for every
value of the symbolic doubles along the executed path.

Client hooks (dict name -> callable(interp, args)) replace individual functions, e.g. the linear solvers are replaced by a
hook that records (A, b) and returns fresh symbols for x.
"""
import sys, os, math, struct, time
from fractions import Fraction
import z3
from irparse import *
from irsym import Rat, Mag, Ptr, Fork, Interp


class MemFault(Exception):
    def __init__(s, kind, detail):
        Exception.__init__(s, '%s: %s' % (kind, detail)); s.kind = kind; s.detail = detail


class LibAbort(Exception):
    pass


class PathInfeasible(Exception):
    """z3 refuted the conjunction of the branch outcomes taken so far: the path is dropped (it exists for no input)"""
    pass


class Special:
    """non-finite double: 'nan' poisons arithmetic; 'inf' / '-inf' only take part in comparisons"""
    __slots__ = ('k',)
    def __init__(s, k): s.k = k
    def __repr__(s): return 'Special(%s)' % s.k


NAN = Special('nan'); PINF = Special('inf'); NINF = Special('-inf')
NULL = Ptr(None, 0)


class VaList:
    def __init__(s, args): s.args = list(args); s.i = 0


def sgn(v, n):
    return v - (1 << n) if v >> (n - 1) else v


class XInterp(Interp):
    def __init__(s, mod, choices=(), hooks=None, approx=False):
        Interp.__init__(s, mod, choices)
        s.meta = {}            # obj -> [size or None, alive, kind]
        s.fills = {}           # obj -> list of (lo, hi, byte) newest last
        s.hooks = dict(hooks or {})
        s.approx = approx      # allow float approximations of irrational constants (validation runs only, never proofs)
        s.errors = []          # (_vna*_error category, message) in call order
        s.va_stack = []
        s.faults = []
        s.heap_allocs = 0
        s.alloc_fail_at = None   # fail the K-th heap allocation (1-based)
        s._rt = {}; s._sz = {}
        s.files = {}           # FILE objects: obj -> dict(buf=bytearray|list, pos, mode, ...)
        s.fs = {}              # path -> list of bytes / tokens
        s.placeholders = {}    # text -> symbolic Rat (printf of a symbolic double)
        s.trace_calls = None
        s.errno_obj = s.alloc('errno', 4, 'global'); s.store(s.errno_obj, 0)
        s.strpool = {}
        s.generic = False      # generic-point mode: a symbolic equality test x == y takes the '!=' branch (recorded as an assumption)
        s.generic_assumed = [] # the disequalities assumed that way
        s.unexplored = []      # branch conditions without witness point and without z3 verdict (not explored; listed)

    # ---- type helpers
    def rt(s, t):
        k = id(t)
        r = s._rt.get(k)
        if r is None:
            r = s.m.resolve(t); s._rt[k] = (r, t)   # keep t alive so id stays unique
            return r
        return r[0]

    def sizeof(s, t):
        k = id(t)
        r = s._sz.get(k)
        if r is None:
            r = (s.m.sizeof(t), t); s._sz[k] = r
        return r[0]

    # ---- memory
    def alloc(s, name=None, size=None, kind='stack'):
        s.nobj += 1
        k = name or ('o%d' % s.nobj)
        s.mem[k] = {}
        s.meta[k] = [size, True, kind]
        return Ptr(k, 0)

    def _chk(s, p, n, what):
        if p.obj is None: raise MemFault('null-deref', '%s of %d bytes at NULL%+d' % (what, n, p.off))
        mt = s.meta.get(p.obj)
        if mt is None:
            if p.obj in s.mem: return      # legacy objects created by irsym-style clients
            raise MemFault('wild-pointer', '%s through %r' % (what, p))
        if not mt[1]: raise MemFault('use-after-free', '%s of %d bytes in freed %s object %s' % (what, n, mt[2], p.obj))
        if mt[0] is not None and (p.off < 0 or p.off + n > mt[0]):
            raise MemFault('out-of-bounds', '%s of %d bytes at offset %d of %s object %s of size %d' % (what, n, p.off, mt[2], p.obj, mt[0]))

    def store(s, p, v, n=None):
        if n is not None:
            s._chk(p, n, 'store')
            d = s.mem[p.obj]
            if n > 1:
                for o in range(p.off + 1, p.off + n):
                    if o in d: del d[o]
            d[p.off] = v
        else:
            s.mem[p.obj][p.off] = v

    def _fill_at(s, obj, off):
        f = s.fills.get(obj)
        if f:
            for lo, hi, b in reversed(f):
                if lo <= off < hi: return b
        return None

    def load(s, p, t):
        rt = s.rt(t)
        if isinstance(rt, TStruct):
            return tuple(s.load(Ptr(p.obj, p.off + s.m.field_offset(rt, i)), e) for i, e in enumerate(rt.els))
        if isinstance(rt, TArr):
            sz = s.sizeof(rt.el)
            return tuple(s.load(Ptr(p.obj, p.off + i * sz), rt.el) for i in range(rt.n))
        n = s.sizeof(t)
        s._chk(p, n, 'load')
        d = s.mem[p.obj]
        v = d.get(p.off, d)
        if v is not d:
            if isinstance(rt, TInt):
                if isinstance(v, int): return v & ((1 << rt.n) - 1)
                if isinstance(v, Ptr): return v
                raise MemFault('type-pun', 'integer load of a %s at %r' % (type(v).__name__, p))
            if isinstance(rt, TFloat):
                if isinstance(v, int):
                    if v == 0: return Rat.const(0.0)
                    raise MemFault('type-pun', 'double load of integer %d at %r' % (v, p))
                return v
            if isinstance(rt, TPtr):
                if isinstance(v, int):
                    if v == 0: return NULL
                    return Ptr('wild', v)
                return v
            return v
        b = s._fill_at(p.obj, p.off)
        if b is None:
            # an i8 read inside a wider concrete integer cell (e.g. bool / char views)
            raise MemFault('uninitialised-read', 'load of %d bytes at offset %d of %s (never written)' % (n, p.off, p.obj))
        if isinstance(rt, TInt):
            return int.from_bytes(bytes([b]) * n, 'little') & ((1 << rt.n) - 1)
        if isinstance(rt, TFloat):
            if b != 0 and os.environ.get('IRX_TRAP_NAN'): raise RuntimeError('double load from memory filled with byte %d' % b)
            return Rat.const(0.0) if b == 0 else NAN
        if isinstance(rt, TPtr):
            return NULL if b == 0 else Ptr('wild', b)
        raise NotImplementedError('load of %s from fill' % rt.key())

    def store_typed(s, p, v, t):
        rt = s.rt(t)
        if isinstance(rt, TStruct):
            for i, e in enumerate(rt.els): s.store_typed(Ptr(p.obj, p.off + s.m.field_offset(rt, i)), v[i], e)
        elif isinstance(rt, TArr):
            sz = s.sizeof(rt.el)
            for i in range(rt.n): s.store_typed(Ptr(p.obj, p.off + i * sz), v[i], rt.el)
        else:
            s.store(p, v, s.sizeof(t))

    def global_ptr(s, name):
        k = 'g' + name
        if k not in s.mem:
            g = s.m.gl[name]; s.mem[k] = {}
            s.meta[k] = [s.m.sizeof(g.ty) if not isinstance(s.m.resolve(g.ty), (TOpaque, TFunc)) else None, True, 'global']
            if g.init is not None: s.init_global(Ptr(k, 0), g.init, g.ty)
            else: s.fills[k] = [(0, 1 << 40, 0)] if not g.ext else []
        return Ptr(k, 0)

    def init_global(s, p, v, t):
        rt = s.m.resolve(t)
        if isinstance(v, CAgg):
            if isinstance(rt, TStruct):
                for i, (et, ev) in enumerate(v.els): s.init_global(Ptr(p.obj, p.off + s.m.field_offset(rt, i)), ev, et)
            else:
                sz = s.m.sizeof(rt.el)
                for i, (et, ev) in enumerate(v.els): s.init_global(Ptr(p.obj, p.off + i * sz), ev, et)
        elif isinstance(v, CStr):
            d = s.mem[p.obj]
            for i, b in enumerate(v.bs): d[p.off + i] = b
        elif isinstance(v, (CZero, CUndef)) and isinstance(rt, (TStruct, TArr)):
            s.fills.setdefault(p.obj, []).append((p.off, p.off + s.m.sizeof(t), 0))
        else:
            s.mem[p.obj][p.off] = s.val(v, t, {})

    # heap
    def heap_alloc(s, size, zero=False):
        s.heap_allocs += 1
        if s.alloc_fail_at is not None and s.heap_allocs == s.alloc_fail_at:
            s.store(s.errno_obj, 12)
            return NULL
        p = s.alloc(None, size, 'heap')
        if zero: s.fills[p.obj] = [(0, size, 0)]
        return p

    def heap_free(s, p):
        if p.obj is None: return
        mt = s.meta.get(p.obj)
        if mt is None or mt[2] != 'heap': raise MemFault('bad-free', 'free of non-heap pointer %r' % (p,))
        if p.off != 0: raise MemFault('bad-free', 'free of interior pointer %r' % (p,))
        if not mt[1]: raise MemFault('double-free', 'free of already freed %s' % p.obj)
        mt[1] = False
        s.mem[p.obj] = {}; s.fills.pop(p.obj, None)

    def live_heap(s):
        return [k for k, mt in s.meta.items() if mt[2] == 'heap' and mt[1]]

    def memset(s, p, b, n):
        if n == 0: return
        s._chk(p, n, 'memset')
        d = s.mem[p.obj]
        lo, hi = p.off, p.off + n
        if len(d) < n:
            for o in [o for o in d if lo <= o < hi]: del d[o]
        else:
            for o in range(lo, hi):
                if o in d: del d[o]
        s.fills.setdefault(p.obj, []).append((lo, hi, b & 255))

    def memcpy(s, dp, sp, n):
        if n == 0: return
        s._chk(dp, n, 'memcpy-store'); s._chk(sp, n, 'memcpy-load')
        sd = s.mem[sp.obj]
        lo, hi = sp.off, sp.off + n
        if len(sd) < n: cells = [(o, v) for o, v in sd.items() if lo <= o < hi]
        else: cells = [(o, sd[o]) for o in range(lo, hi) if o in sd]
        sf = [(max(a, lo), min(b_, hi), by) for a, b_, by in s.fills.get(sp.obj, []) if a < hi and b_ > lo]
        dd = s.mem[dp.obj]
        dlo, dhi = dp.off, dp.off + n
        if len(dd) < n:
            for o in [o for o in dd if dlo <= o < dhi]: del dd[o]
        else:
            for o in range(dlo, dhi):
                if o in dd: del dd[o]
        # uninitialised source bytes stay uninitialised in the destination: drop destination fills over the range
        df = s.fills.get(dp.obj)
        if df:
            nf = []
            for a, b_, by in df:
                if b_ <= dlo or a >= dhi: nf.append((a, b_, by)); continue
                if a < dlo: nf.append((a, dlo, by))
                if b_ > dhi: nf.append((dhi, b_, by))
            s.fills[dp.obj] = nf
        sh = dp.off - sp.off
        for a, b_, by in sf: s.fills.setdefault(dp.obj, []).append((a + sh, b_ + sh, by))
        for o, v in cells: dd[o + sh] = v

    # strings
    def cstr(s, p, maxlen=1 << 20):
        out = bytearray()
        d = s.mem.get(p.obj)
        if p.obj is None: raise MemFault('null-deref', 'string read at NULL')
        o = p.off
        while len(out) < maxlen:
            s._chk(Ptr(p.obj, o), 1, 'string read')
            v = d.get(o, d)
            if v is d:
                b = s._fill_at(p.obj, o)
                if b is None: raise MemFault('uninitialised-read', 'string read at offset %d of %s' % (o, p.obj))
                v = b
            if not isinstance(v, int): raise MemFault('type-pun', 'string read of %s' % type(v).__name__)
            v &= 255
            if v == 0: break
            out.append(v); o += 1
        return bytes(out)

    def put_bytes(s, p, bs):
        s._chk(p, len(bs), 'store') if bs else None
        d = s.mem[p.obj]
        for i, b in enumerate(bs): d[p.off + i] = b

    def new_cstr(s, bs, kind='heap'):
        p = s.heap_alloc(len(bs) + 1) if kind == 'heap' else s.alloc(None, len(bs) + 1, kind)
        if p.obj is None: return p
        s.put_bytes(p, bytes(bs) + b'\0')
        return p

    def static_str(s, bs):
        p = s.strpool.get(bs)
        if p is None:
            p = s.new_cstr(bs, 'global'); s.strpool[bs] = p
        return p

    def set_errno(s, v): s.store(s.errno_obj, v, 4)
    def get_errno(s): return s.load(s.errno_obj, TInt(32))

    # ---- values
    def val(s, v, t, env):
        if isinstance(v, Local): return env[v.name]
        if isinstance(v, CFP):
            f = v.f
            if f != f: return NAN
            if f == float('inf'): return PINF
            if f == float('-inf'): return NINF
            return Rat.const(f)
        return Interp.val(s, v, t, env)

    # ---- feasibility of a branch: witness by evaluation at random rational points first (z3's nonlinear engine can run for minutes
    #      on pivot conditions of a symbolic LU and does not honour its timeout there), z3 in a killable child process second
    def _vars_of(s, e):
        cache = s.__dict__.setdefault('_vars_cache', {})
        k = e.get_id()
        if k not in cache:
            seen = set(); out = []; todo = [e]
            while todo:
                x = todo.pop()
                i = x.get_id()
                if i in seen: continue
                seen.add(i)
                if z3.is_const(x) and x.decl().kind() == z3.Z3_OP_UNINTERPRETED: out.append(x)
                else: todo.extend(x.children())
            cache[k] = (out, e)
        return cache[k][0]

    def _has_uf(s, e):
        cache = s.__dict__.setdefault('_uf_cache', {})
        k = e.get_id()
        if k not in cache:
            seen = set(); todo = [e]; found = False
            while todo and not found:
                x = todo.pop()
                if x.get_id() in seen: continue
                seen.add(x.get_id())
                if z3.is_app(x) and x.num_args() > 0 and x.decl().kind() == z3.Z3_OP_UNINTERPRETED: found = True
                todo.extend(x.children())
            cache[k] = (found, e)
        return cache[k][0]

    def _eval_at(s, e, pt):
        vs = s._vars_of(e)
        for v in vs:
            if v.get_id() not in pt['val']:
                rv = s.__dict__.get('_root_vals', {}).get(v.get_id())
                pt['val'][v.get_id()] = (v, z3.RealVal(rv if rv is not None else Fraction(pt['rnd'].randint(-40, 40) * pt['rnd'].choice((1, 1, 1, 6, 40, 300)), pt['rnd'].choice((3, 5, 7, 8, 9, 11)))))
        r = z3.simplify(z3.substitute(e, [pt['val'][v.get_id()] for v in vs]))
        if z3.is_true(r): return True
        if z3.is_false(r): return False
        return None

    def _samples(s):
        alive = s._samples_raw()
        alive = [pt for pt in alive if pt['alive']]
        if not alive: alive = s._revive()
        return alive

    def _samples_raw(s):
        import random
        sm = s.__dict__.get('_sample_pts')
        if sm is None:
            sm = s._sample_pts = [{'rnd': random.Random(9000 + i), 'val': {}, 'npath': 0, 'ndens': 0, 'alive': True} for i in range(256)]
        for pt in sm:
            while pt['alive'] and pt['npath'] < len(s.path):
                pc = s.path[pt['npath']]
                rv_ = s.__dict__.get('_root_vals')
                if rv_ and all(v.get_id() in rv_ for v in s._vars_of(pc)): pass      # definition of an irrational constant root: holds only approximately at a sample
                else:
                    ev_ = s._eval_at(pc, pt)
                    if ev_ is False or (ev_ is None and not s._has_uf(pc)): pt['alive'] = False
                pt['npath'] += 1
            while pt['alive'] and pt['ndens'] < len(s.dens):
                dn = s.dens[pt['ndens']]
                ev_ = s._eval_at(dn != 0, pt)
                # a divisor built from an uninterpreted function (sqrt / cos / ...) cannot be evaluated at a point: not held against it
                if ev_ is False or (ev_ is None and not s._has_uf(dn)): pt['alive'] = False
                pt['ndens'] += 1
        return sm

    def _z3_child(s, extra, timeout_s=6.0, want_model=False):
        """z3 on path & divisors & extra in a killable child: ('sat', model dict | None) / ('unsat', None) / ('unknown', None)"""
        import select, signal as _sg, json as _json
        rfd, wfd = os.pipe()
        pid = os.fork()
        if pid == 0:
            try:
                os.close(rfd)
                sol = z3.Solver(); sol.set('timeout', int(timeout_s * 1000) - 1500)
                for d in s.dens: sol.add(d != 0)
                for p_ in s.path: sol.add(p_)
                for e in extra: sol.add(e)
                r = str(sol.check()); mdl = None
                if r == 'sat' and want_model:
                    m = sol.model(); mdl = {}
                    for d in m.decls():
                        if d.arity() != 0: continue
                        v = m[d]
                        try:
                            if z3.is_rational_value(v): mdl[d.name()] = str(v.as_fraction())
                            elif z3.is_algebraic_value(v): mdl[d.name()] = str(v.approx(20).as_fraction())
                        except Exception: pass
                os.write(wfd, _json.dumps([r, mdl]).encode())
            finally:
                os._exit(0)
        os.close(wfd)
        buf = b''
        t_end = time.time() + timeout_s
        while True:
            rl, _, _ = select.select([rfd], [], [], max(0.0, t_end - time.time()))
            if not rl: break
            chunk = os.read(rfd, 1 << 16)
            if not chunk: break
            buf += chunk
        try: os.kill(pid, _sg.SIGKILL)
        except OSError: pass
        os.close(rfd); os.waitpid(pid, 0)
        try:
            r, mdl = _json.loads(buf.decode()); return r, mdl
        except Exception:
            return 'unknown', None

    def _revive(s):
        """no sample point satisfies the path: ask z3 once for a model and adopt it as a sample point; an infeasible path is abandoned"""
        if s.__dict__.get('unwitnessed'): return []
        r, mdl = s._z3_child([], 8.0, want_model=True)
        if r == 'unsat': raise PathInfeasible()
        if r == 'sat' and mdl is not None:
            import random
            pt = {'rnd': random.Random(4242 + len(s.path)), 'val': {}, 'npath': 0, 'ndens': 0, 'alive': True}
            byname = {}
            for pc in list(s.path) + [d != 0 for d in s.dens]:
                for v in s._vars_of(pc): byname[v.decl().name()] = v
            for nme, fr in mdl.items():
                if nme in byname: pt['val'][byname[nme].get_id()] = (byname[nme], z3.RealVal(Fraction(fr)))
            s._sample_pts.append(pt)
            alive = [p for p in s._samples_raw() if p['alive']]
            if alive: return alive
        s.unwitnessed = True
        return []

    def _feasible(s, c):
        """'sat' / 'unsat' / 'unknown' of path & divisors-nonzero & c"""
        memo = s.__dict__.setdefault('_feas_memo', {})
        k = (c.get_id(), len(s.path), len(s.dens))
        if k in memo: return memo[k]
        res = None
        alive = s._samples()
        for pt in alive:
            if s._eval_at(c, pt) is True: res = 'sat'; break
        if res is None and not alive and s.__dict__.get('unwitnessed'):
            res = 'unknown'      # the path itself has no witness point: do not spend z3 time on every later comparison
        if res is None:
            res, _ = s._z3_child([c], 6.0)
        memo[k] = res
        return res

    @staticmethod
    def _thin(e):
        """e can only hold on a measure-zero set: an equality atom, or a conjunction containing one"""
        if z3.is_eq(e) and e.arg(0).sort().kind() == z3.Z3_REAL_SORT: return True
        if z3.is_and(e): return any(XInterp._thin(ch) for ch in e.children())
        if z3.is_or(e): return all(XInterp._thin(ch) for ch in e.children())
        if z3.is_le(e) and z3.is_rational_value(e.arg(1)) and e.arg(1).as_fraction() == 0 and XInterp._sum_of_squares(e.arg(0)): return True
        return False

    @staticmethod
    def _sum_of_squares(e):
        """e is syntactically a sum of squares (so e <= 0 can only hold where every square vanishes)"""
        def square(t):
            if z3.is_mul(t):
                ch = [c for c in t.children() if not (z3.is_rational_value(c) and c.as_fraction() > 0)]
                if len(ch) == 2 and ch[0].get_id() == ch[1].get_id(): return True
                if len(ch) == 1 and z3.is_app_of(ch[0], z3.Z3_OP_POWER): return True
            if z3.is_app_of(t, z3.Z3_OP_POWER) and z3.is_rational_value(t.arg(1)) and t.arg(1).as_fraction() == 2: return True
            if z3.is_div(t): return square(t.arg(0)) and square(t.arg(1))
            return False
        if z3.is_add(e): return all(square(t) or XInterp._sum_of_squares(t) for t in e.children())
        return square(e)

    def decide(s, cond):
        c = z3.simplify(cond)
        if z3.is_true(c): return True
        if z3.is_false(c): return False
        k = c.get_id()
        memo = s.__dict__.setdefault('_decided', {})
        if k in memo: return memo[k]
        r = None
        if s.generic:
            nc = z3.simplify(z3.Not(c))
            # generic point: a branch that needs free values to coincide is left out (recorded), unless it is forced
            uw = s.__dict__.get('unwitnessed')
            if s._thin(nc) and (uw or s._feasible(c) == 'sat'): r = True
            elif s._thin(c) and (uw or s._feasible(nc) == 'sat'): r = False
            if r is not None:
                a = c if r else nc
                s.path.append(a); s.generic_assumed.append(a)
            else:
                alive = s._samples()
                vals = [s._eval_at(c, pt) for pt in alive]
                nt, nf = vals.count(True), vals.count(False)
                if len(alive) >= 16 and (nt == 0 or nf == 0) and None not in vals:
                    # every witness point of the current path takes the same side: the other side is infeasible, a measure-zero set
                    # written as an inequality (|x|^2 <= 0), or very unlikely.  z3 gets a short chance to say which.
                    other = nc if nt else c
                    fo = s._feasible(other)
                    if fo == 'unsat': r = bool(nt)
                    elif fo == 'unknown':
                        r = bool(nt)
                        a = c if r else nc
                        s.path.append(a); s.unexplored.append(other)
                elif not alive:
                    fc, fn = s._feasible(c), s._feasible(nc)
                    if fc == 'unsat' and fn != 'unsat': r = False
                    elif fn == 'unsat' and fc != 'unsat': r = True
        if r is None:
            vs_ = [s._eval_at(c, pt) for pt in s._samples()]
            if True in vs_ and False in vs_:
                s.__dict__.setdefault('forked_conds', []).append(c)      # a two-sided decision with a witness point on either side
            r = Interp.decide(s, c)
        memo[k] = r
        nk = z3.simplify(z3.Not(c)).get_id(); memo[nk] = not r
        return r

    # ---- float ops with non-finite handling
    def fcmp(s, cc, a, b):
        if isinstance(a, Special) or isinstance(b, Special):
            if (isinstance(a, Special) and a.k == 'nan') or (isinstance(b, Special) and b.k == 'nan'):
                return cc in ('uno', 'une', 'ueq', 'ugt', 'uge', 'ult', 'ule')
            if cc == 'uno': return False
            if cc == 'ord': return True
            def rank(x):
                if isinstance(x, Special): return 2 if x.k == 'inf' else -2
                return 0
            ra, rb = rank(a), rank(b)
            if ra == rb: raise NotImplementedError('inf cmp inf')
            return {'oeq': False, 'ueq': False, 'one': True, 'une': True, 'ogt': ra > rb, 'ugt': ra > rb, 'oge': ra > rb, 'uge': ra > rb,
                    'olt': ra < rb, 'ult': ra < rb, 'ole': ra < rb, 'ule': ra < rb}[cc]
        return Interp.fcmp(s, cc, a, b)

    def farith(s, op, a, b):
        if isinstance(a, Special) or isinstance(b, Special):
            # IEEE: finite / +-inf = 0; everything else involving a non-finite operand is treated as NaN (sign of infinities not tracked)
            if op == 'fdiv' and isinstance(b, Special) and b.k in ('inf', '-inf') and not isinstance(a, Special): return Rat.const(0.0)
            return NAN
        if isinstance(a, Mag) or isinstance(b, Mag):
            if op not in ('fmul', 'fdiv'): raise NotImplementedError('%s on a magnitude' % op)
            for o_ in (a, b):
                if not isinstance(o_, Mag) and not (o_.isconst() and o_.value() >= 0):
                    raise NotImplementedError('magnitude combined with a signed symbolic value')
            ra = a.rad if isinstance(a, Mag) else a * a
            rb = b.rad if isinstance(b, Mag) else b * b
            if op == 'fdiv':
                s.need_nonzero(rb.n); return Mag(ra / rb)
            return Mag(ra * rb)
        if op == 'fadd': return a + b
        if op == 'fsub': return a - b
        if op == 'fmul': return a * b
        if b.isconst() and b.value() == 0:
            if os.environ.get('IRX_TRAP_NAN'): raise RuntimeError('division by zero creates a non-finite value')
            if a.isconst() and a.value() == 0: return NAN
            return PINF     # sign not tracked; only comparisons with finite values are supported afterwards
        s.need_nonzero(b.n)
        return a / b

    # ---- calls
    def call(s, fname, args, va=()):
        h = s.hooks.get(fname[1:])
        if h is not None:
            return h(s, list(args) + list(va))
        if fname in s.m.funcs:
            f = s.m.funcs[fname]
            if s.trace_calls is not None: s.trace_calls.append(fname[1:])
            if va or getattr(f.ftype, 'va', False):
                s.va_stack.append(list(va))
                try: return s.run(f, args)
                finally: s.va_stack.pop()
            return s.run(f, args)
        n = fname[1:]
        fn = LIBC.get(n)
        if fn is not None:
            return fn(s, list(args) + list(va))
        if n.startswith('llvm.memset'):
            s.memset(args[0], args[1], args[2]); return None
        if n.startswith('llvm.memcpy') or n.startswith('llvm.memmove'):
            s.memcpy(args[0], args[1], args[2]); return None
        if n.startswith('llvm.va_start'):
            s.store(args[0], VaList(s.va_stack[-1]), 8); return None
        if n.startswith('llvm.va_end'): return None
        if n.startswith('llvm.fmuladd') or n == 'fma':
            return s.farith('fadd', s.farith('fmul', args[0], args[1]), args[2])
        if n in ('llvm.floor.f64', 'llvm.ceil.f64', 'llvm.log10.f64', 'llvm.log.f64', 'llvm.exp.f64', 'llvm.cos.f64', 'llvm.sin.f64', 'llvm.pow.f64'):
            return LIBC[n.split('.')[1]](s, list(args))
        if n.startswith('llvm.va_copy'):
            v = s.mem[args[1].obj][args[1].off]
            c = VaList(v.args); c.i = v.i
            s.store(args[0], c, 8); return None
        if n in ('llvm.fabs.f64', 'fabs') and isinstance(args[0], (Mag, Special)):
            if isinstance(args[0], Special): return NAN if args[0].k == 'nan' else PINF
            return args[0]
        if n == 'cabs' and (isinstance(args[0], Special) or isinstance(args[1], Special)): return NAN
        if n == 'cabs' and s.approx and all(isinstance(x, Rat) and x.isconst() for x in args[:2]):
            return Rat.const(math.hypot(float(args[0].value()), float(args[1].value())))
        if n in ('__divdc3', '__muldc3'):
            if any(isinstance(x, Special) for x in args[:4]): return (NAN, NAN)
            if n == '__divdc3' and all(isinstance(x, Rat) and x.isconst() and x.value() == 0 for x in args[2:4]): return (NAN, NAN)   # x / (0+0i): non-finite
        if n in ('sqrt', 'llvm.sqrt.f64') and not s.approx and isinstance(args[0], Rat) and args[0].isconst() and args[0].value() > 0:
            v = args[0].value()
            r = Fraction(math.isqrt(v.numerator), 1) / Fraction(math.isqrt(v.denominator), 1)
            if r * r == v: return Rat(r, Fraction(1))
            # irrational root of a constant (e.g. sqrt(50) for the default reference impedance): an exact algebraic number, as a z3
            # constant r with r*r == v, r > 0 in the path condition
            roots = s.__dict__.setdefault('_const_roots', {})
            if v not in roots:
                zr = z3.Real('sqrt_%d_%d' % (v.numerator, v.denominator))
                d1 = zr * zr == z3.RealVal(v); d2 = zr > 0
                s.path.append(d1); s.path.append(d2)
                s.__dict__.setdefault('_skip_in_samples', set()).update((d1.get_id(), d2.get_id()))
                s.__dict__.setdefault('_root_vals', {})[zr.get_id()] = Fraction(math.sqrt(float(v))).limit_denominator(10 ** 12)
                roots[v] = Rat(zr)
            return roots[v]
        if n in ('sqrt', 'llvm.sqrt.f64') and not s.approx and isinstance(args[0], Rat) and not args[0].isconst():
            key = (Rat._k(args[0].n), Rat._k(args[0].d))
            if key not in s.known_sqrt: return _uf(s, 'sqrt', [args[0]])      # square root of a symbolic value: an uninterpreted function of it
        if n in ('sqrt', 'llvm.sqrt.f64') and s.approx and isinstance(args[0], Rat) and args[0].isconst():
            v = args[0].value()
            r = Fraction(math.isqrt(v.numerator), 1) / Fraction(math.isqrt(v.denominator), 1) if v >= 0 else None
            if r is not None and r * r == v: return Rat(r, Fraction(1))
            return Rat.const(math.sqrt(float(v)))
        return Interp.call(s, fname, args)

    def run(s, f, args):
        s.funcs_run.add(f.name[1:])
        env = dict(zip(f.pnames, args))
        blk = f.blocks[0]; prev = None
        m = s.m
        frame_objs = []
        val = s.val
        try:
            while True:
                if blk.phis:
                    newv = {}
                    for I in blk.phis:
                        for pred, v in I.inc:
                            if pred == prev: newv[I.dst] = val(v, I.ty, env); break
                        else: raise RuntimeError('phi without matching predecessor')
                    env.update(newv)
                for I in blk.ins:
                    s.steps += 1
                    op = I.op
                    if op == 'load':
                        env[I.dst] = s.load(val(I.ptr, I.pt, env), I.ty)
                    elif op == 'store':
                        s.store_typed(val(I.ptr, I.pt, env), val(I.val, I.ty, env), I.ty)
                    elif op == 'getelementptr':
                        env[I.dst] = s.gep(I.bt, val(I.base, I.pt, env), [(it, val(ix, it, env)) for it, ix in I.idx])
                    elif op == 'alloca':
                        cnt = 1
                        if I.cnt is not None:
                            ct, cv = I.cnt
                            cnt = val(cv, ct, env)
                            cnt = sgn(cnt, s.rt(ct).n)
                            if cnt < 0: raise MemFault('negative-vla', 'alloca of %d elements' % cnt)
                        p = s.alloc(None, s.sizeof(I.ty) * cnt, 'stack')
                        frame_objs.append(p.obj)
                        env[I.dst] = p
                    elif op in ('fadd', 'fsub', 'fmul', 'fdiv'):
                        env[I.dst] = s.farith(op, val(I.a, I.ty, env), val(I.b, I.ty, env))
                    elif op == 'fneg':
                        a = val(I.a, I.ty, env)
                        env[I.dst] = a if isinstance(a, Special) else -a
                    elif op in ('add', 'sub', 'mul', 'and', 'or', 'xor', 'shl', 'lshr', 'ashr', 'sdiv', 'srem', 'udiv', 'urem'):
                        n = s.rt(I.ty).n; a = val(I.a, I.ty, env); b = val(I.b, I.ty, env); mask = (1 << n) - 1
                        if isinstance(a, Ptr) or isinstance(b, Ptr):
                            if op == 'sub' and isinstance(a, Ptr) and isinstance(b, Ptr) and a.obj == b.obj: r = a.off - b.off
                            elif op == 'add' and isinstance(a, Ptr) and not isinstance(b, Ptr): env[I.dst] = Ptr(a.obj, a.off + sgn(b, n)); continue
                            elif op == 'add' and isinstance(b, Ptr) and not isinstance(a, Ptr): env[I.dst] = Ptr(b.obj, b.off + sgn(a, n)); continue
                            elif op == 'sub' and isinstance(a, Ptr): env[I.dst] = Ptr(a.obj, a.off - sgn(b, n)); continue
                            else: raise NotImplementedError('integer %s on pointers' % op)
                        elif op == 'add': r = a + b
                        elif op == 'sub': r = a - b
                        elif op == 'mul': r = a * b
                        elif op == 'and': r = a & b
                        elif op == 'or': r = a | b
                        elif op == 'xor': r = a ^ b
                        elif op == 'shl': r = a << b
                        elif op == 'lshr': r = a >> b
                        elif op == 'ashr': r = sgn(a, n) >> b
                        elif op == 'sdiv':
                            x, y = sgn(a, n), sgn(b, n)
                            if y == 0: raise MemFault('division-by-zero', 'sdiv')
                            r = abs(x) // abs(y) * (1 if (x < 0) == (y < 0) else -1)
                        elif op == 'srem':
                            x, y = sgn(a, n), sgn(b, n)
                            if y == 0: raise MemFault('division-by-zero', 'srem')
                            q = abs(x) // abs(y) * (1 if (x < 0) == (y < 0) else -1); r = x - q * y
                        elif op == 'udiv':
                            if b == 0: raise MemFault('division-by-zero', 'udiv')
                            r = a // b
                        else:
                            if b == 0: raise MemFault('division-by-zero', 'urem')
                            r = a % b
                        env[I.dst] = r & mask
                    elif op == 'icmp':
                        a = val(I.a, I.ty, env); b = val(I.b, I.ty, env)
                        if isinstance(a, Ptr) or isinstance(b, Ptr):
                            if not isinstance(a, Ptr): a = Ptr(None, a) if a == 0 else Ptr('wild', a)
                            if not isinstance(b, Ptr): b = Ptr(None, b) if b == 0 else Ptr('wild', b)
                            if I.cc in ('eq', 'ne'):
                                eq = (a.obj, a.off) == (b.obj, b.off)
                                env[I.dst] = int(eq if I.cc == 'eq' else not eq)
                            else:
                                if a.obj != b.obj: raise NotImplementedError('ordering of pointers into different objects')
                                x, y = a.off, b.off
                                env[I.dst] = int({'gt': x > y, 'ge': x >= y, 'lt': x < y, 'le': x <= y}[I.cc[-2:]])
                        else:
                            n = s.rt(I.ty).n
                            if I.cc[0] == 's': a, b = sgn(a, n), sgn(b, n)
                            cc = I.cc if I.cc in ('eq', 'ne') else I.cc[-2:]
                            env[I.dst] = int(a == b if cc == 'eq' else a != b if cc == 'ne' else a > b if cc == 'gt' else a >= b if cc == 'ge' else a < b if cc == 'lt' else a <= b)
                    elif op == 'fcmp':
                        env[I.dst] = int(s.fcmp(I.cc, val(I.a, I.ty, env), val(I.b, I.ty, env)))
                    elif op in ('zext', 'trunc', 'sext', 'bitcast', 'ptrtoint', 'inttoptr', 'fpext', 'fptrunc'):
                        v = val(I.v, I.ft, env)
                        if op == 'sext':
                            n = s.rt(I.ft).n
                            if v >> (n - 1): v -= 1 << n
                            v &= (1 << s.rt(I.tt).n) - 1
                        elif op == 'trunc':
                            if isinstance(v, Ptr): raise NotImplementedError('trunc of pointer')
                            v &= (1 << s.rt(I.tt).n) - 1
                        elif op == 'inttoptr' and isinstance(v, int):
                            v = NULL if v == 0 else Ptr('wild', v)
                        elif op == 'bitcast' and isinstance(s.rt(I.tt), TInt) and isinstance(s.rt(I.ft), TFloat):
                            if isinstance(v, Rat) and v.isconst():
                                v = struct.unpack('<Q', struct.pack('<d', float(v.value())))[0]
                            elif isinstance(v, Special):
                                v = struct.unpack('<Q', struct.pack('<d', float(v.k)))[0]
                            else: raise NotImplementedError('bit pattern of a symbolic double')
                        elif op == 'bitcast' and isinstance(s.rt(I.tt), TFloat) and isinstance(s.rt(I.ft), TInt):
                            f = struct.unpack('<d', struct.pack('<Q', v))[0]
                            v = NAN if f != f else PINF if f == float('inf') else NINF if f == float('-inf') else Rat.const(f)
                        env[I.dst] = v
                    elif op in ('sitofp', 'uitofp'):
                        v = val(I.v, I.ft, env); n = s.rt(I.ft).n
                        if op == 'sitofp' and v >> (n - 1): v -= 1 << n
                        env[I.dst] = Rat.const(Fraction(v))
                    elif op in ('fptosi', 'fptoui'):
                        v = val(I.v, I.ft, env)
                        if not (isinstance(v, Rat) and v.isconst()): raise NotImplementedError('fptosi of a symbolic double')
                        q = v.value(); iv = int(q)     # truncation toward zero
                        env[I.dst] = iv & ((1 << s.rt(I.tt).n) - 1)
                    elif op == 'select':
                        c = val(I.c, TInt(1), env)
                        env[I.dst] = val(I.a, I.ty, env) if c else val(I.b, I.ty, env)
                    elif op == 'extractvalue':
                        v = val(I.a, I.ty, env)
                        for i in I.path: v = v[i]
                        env[I.dst] = v
                    elif op == 'insertvalue':
                        agg = val(I.a, I.ty, env); v = val(I.v, I.vt, env)
                        def ins(a, path):
                            if not path: return v
                            l = list(a); l[path[0]] = ins(a[path[0]], path[1:]); return tuple(l)
                        env[I.dst] = ins(agg, I.path)
                    elif op == 'call':
                        if isinstance(I.callee, GlobalRef): callee = I.callee.name
                        else:
                            cv = env[I.callee.name]
                            if not isinstance(cv, GlobalRef): raise MemFault('bad-call', 'indirect call through %r' % (cv,))
                            callee = cv.name
                        if callee.startswith('@llvm.dbg') or callee.startswith('@llvm.lifetime'): continue
                        args2 = [val(v, t, env) for t, v in I.args]
                        f2 = m.funcs.get(callee)
                        if f2 is not None and len(args2) > len(f2.pnames):
                            k = len(f2.pnames); r = s.call(callee, args2[:k], args2[k:])
                        else:
                            r = s.call(callee, args2)
                        if I.dst: env[I.dst] = r
                    elif op == 'freeze':
                        env[I.dst] = val(I.a, I.ty, env)
                    else:
                        raise NotImplementedError('irx opcode ' + op)
                T = blk.term
                if T.op == 'ret':
                    return None if T.v is None else val(T.v, T.ty, env)
                if T.op == 'br':
                    nxt = T.a if T.c is None or val(T.c, TInt(1), env) else T.b
                elif T.op == 'switch':
                    v = val(T.v, T.ty, env); nxt = T.dflt
                    n = s.rt(T.ty).n
                    for cv, lb in T.cases:
                        if (cv & ((1 << n) - 1)) == v: nxt = lb; break
                else:
                    raise LibAbort('unreachable reached in %s' % f.name)
                prev = blk.label; blk = f.bmap[nxt]
        finally:
            for o in frame_objs:
                s.meta[o][1] = False; s.mem[o] = {}; s.fills.pop(o, None)


# ---------------------------------------------------------------------------------------------------------------------
# libc

def _malloc(s, a): return s.heap_alloc(a[0])
def _calloc(s, a): return s.heap_alloc(a[0] * a[1], True)
def _free(s, a): s.heap_free(a[0])


def _realloc(s, a):
    p, n = a
    if p.obj is None: return s.heap_alloc(n)
    mt = s.meta.get(p.obj)
    if mt is None or mt[2] != 'heap' or p.off != 0: raise MemFault('bad-free', 'realloc of %r' % (p,))
    if not mt[1]: raise MemFault('use-after-free', 'realloc of freed %s' % p.obj)
    q = s.heap_alloc(n)
    if q.obj is None: return q
    k = min(n, mt[0])
    if k: s.memcpy(q, p, k)
    s.heap_free(p)
    return q


def _strlen(s, a): return len(s.cstr(a[0]))
def _strcmp(s, a):
    x, y = s.cstr(a[0]), s.cstr(a[1])
    return ((x > y) - (x < y)) & 0xffffffff
def _strncmp(s, a):
    x, y = s.cstr(a[0], a[2])[:a[2]], s.cstr(a[1], a[2])[:a[2]]
    return ((x > y) - (x < y)) & 0xffffffff
def _strcasecmp(s, a):
    x, y = s.cstr(a[0]).lower(), s.cstr(a[1]).lower()
    return ((x > y) - (x < y)) & 0xffffffff
def _strncasecmp(s, a):
    x, y = s.cstr(a[0], a[2])[:a[2]].lower(), s.cstr(a[1], a[2])[:a[2]].lower()
    return ((x > y) - (x < y)) & 0xffffffff
def _strcpy(s, a):
    s.put_bytes(a[0], s.cstr(a[1]) + b'\0'); return a[0]
def _strncpy(s, a):
    b = s.cstr(a[1], a[2])[:a[2]]
    s.put_bytes(a[0], b + b'\0' * (a[2] - len(b))); return a[0]
def _strcat(s, a):
    d = s.cstr(a[0]); s.put_bytes(Ptr(a[0].obj, a[0].off + len(d)), s.cstr(a[1]) + b'\0'); return a[0]
def _strdup(s, a): return s.new_cstr(s.cstr(a[0]))
def _strchr(s, a):
    b = s.cstr(a[0]); c = a[1] & 255
    if c == 0: return Ptr(a[0].obj, a[0].off + len(b))
    i = b.find(bytes([c]))
    return NULL if i < 0 else Ptr(a[0].obj, a[0].off + i)
def _strrchr(s, a):
    b = s.cstr(a[0]); c = a[1] & 255
    if c == 0: return Ptr(a[0].obj, a[0].off + len(b))
    i = b.rfind(bytes([c]))
    return NULL if i < 0 else Ptr(a[0].obj, a[0].off + i)
def _strerror(s, a): return s.static_str(os.strerror(sgn(a[0], 32)).encode())
def _memset(s, a): s.memset(a[0], a[1], a[2]); return a[0]
def _memcpy(s, a): s.memcpy(a[0], a[1], a[2]); return a[0]
def _memcmp(s, a):
    n = a[2]
    def bs(p):
        out = []
        for i in range(n):
            out.append(s.load(Ptr(p.obj, p.off + i), TInt(8)))
        return bytes(out)
    x, y = bs(a[0]), bs(a[1])
    return ((x > y) - (x < y)) & 0xffffffff
def _errno_loc(s, a): return s.errno_obj
def _abort(s, a): raise LibAbort('abort() called')
def _assert_fail(s, a):
    raise LibAbort('library assert failed: %s (%s:%d)' % (s.cstr(a[0]).decode(), s.cstr(a[1]).decode(), a[2]))


def _qsort(s, a):
    base, n, sz, cmp = a
    if n <= 1: return None
    items = []
    for i in range(n):
        t = s.alloc(None, sz, 'stack'); s.memcpy(t, Ptr(base.obj, base.off + i * sz), sz); items.append(t)
    import functools
    def c(x, y): return sgn(s.call(cmp.name, [x, y]) & 0xffffffff, 32)
    items.sort(key=functools.cmp_to_key(c))
    for i, t in enumerate(items): s.memcpy(Ptr(base.obj, base.off + i * sz), t, sz)
    for t in items:
        s.meta[t.obj][1] = False; s.mem[t.obj] = {}
    return None


def _isx(pred):
    def f(s, a):
        c = sgn(a[0], 32)
        return int(0 <= c < 128 and pred(chr(c)))
    return f


def fmt_double(conv, flags, width, prec, x):
    spec = '%' + flags + (str(width) if width is not None else '') + ('.%d' % prec if prec is not None else '') + conv
    return (spec % x).encode()


def c_format(s, fmt, args):
    """printf-family formatting over interpreter values; args: list consumed left to right.  Symbolic doubles are rendered
    as unique numeric placeholders recorded in s.placeholders (text -> Rat)."""
    out = bytearray(); i = 0; ai = iter(args)
    while i < len(fmt):
        c = fmt[i]
        if c != 0x25: out.append(c); i += 1; continue
        i += 1
        flags = ''
        while i < len(fmt) and chr(fmt[i]) in '-+ #0': flags += chr(fmt[i]); i += 1
        width = None
        if fmt[i] == 0x2a: width = sgn(next(ai) & 0xffffffff, 32); i += 1
        else:
            w = ''
            while chr(fmt[i]).isdigit(): w += chr(fmt[i]); i += 1
            if w: width = int(w)
        prec = None
        if fmt[i] == 0x2e:
            i += 1
            if fmt[i] == 0x2a: prec = sgn(next(ai) & 0xffffffff, 32); i += 1
            else:
                w = ''
                while chr(fmt[i]).isdigit(): w += chr(fmt[i]); i += 1
                prec = int(w or '0')
        ln = ''
        while chr(fmt[i]) in 'hlzjtL': ln += chr(fmt[i]); i += 1
        conv = chr(fmt[i]); i += 1
        if width is not None and width < 0: flags += '-'; width = -width
        if prec is not None and prec < 0: prec = None
        ws = (str(width) if width is not None else ''); ps = ('.%d' % prec if prec is not None else '')
        if conv == '%': out.append(0x25)
        elif conv in 'di':
            v = next(ai); bits = 64 if ln in ('l', 'll', 'z', 'j', 't') else 32
            out += (('%' + flags + ws + ps + 'd') % sgn(v & ((1 << bits) - 1), bits)).encode()
        elif conv in 'uxXo':
            v = next(ai); bits = 64 if ln in ('l', 'll', 'z', 'j', 't') else 32
            out += (('%' + flags + ws + ps + conv) % (v & ((1 << bits) - 1))).encode()
        elif conv == 'c':
            out += (('%' + flags + ws + 'c') % chr(next(ai) & 255)).encode('latin1')
        elif conv == 's':
            p = next(ai)
            b = b'(null)' if p.obj is None else s.cstr(p)
            if prec is not None: b = b[:prec]
            if width is not None and len(b) < width: b = b + b' ' * (width - len(b)) if '-' in flags else b' ' * (width - len(b)) + b
            out += b
        elif conv in 'feEgGaA':
            x = next(ai)
            if isinstance(x, Special):
                txt = {'nan': 'nan', 'inf': 'inf', '-inf': '-inf'}[x.k]
                if conv.isupper(): txt = txt.upper()
                out += (('%' + flags.replace('0', '') + ws + 's') % txt).encode()
            elif x.isconst():
                out += fmt_double(conv, flags, width, prec, float(x.value()))
            else:
                # a symbolic double: a unique numeric placeholder in the requested conversion's shape, registered by VALUE so that it
                # survives re-formatting of the digit string (vnadata_save rewrites %e output to engineering notation)
                k = len(s.placeholders) + 1
                pr = 6 if prec is None else prec
                if conv in 'aA':
                    txt = '0x1.c%012xp+2' % k
                    val = Fraction(float.fromhex(txt))
                else:
                    nd = pr if conv in 'eEfF' else max(pr - 1, 0)       # digits after the decimal point
                    if 10 ** nd <= k: raise NotImplementedError('precision %d leaves no room for placeholder %d' % (pr, k))
                    txt = '7.%0*d' % (nd, k) if nd else '7'
                    val = Fraction(txt)
                    if conv in 'eE': txt += 'e+00'
                if '+' in flags: txt = '+' + txt
                s.placeholders[val] = (x, conv, prec)
                out += (('%' + flags.replace('0', '').replace('+', '').replace('#', '') + ws + 's') % txt).encode()
        elif conv == 'p':
            next(ai); out += b'0xptr'
        else:
            raise NotImplementedError('printf conversion %%%s' % conv)
    return bytes(out)


def _va(s, v):
    if isinstance(v, Ptr):
        v = s.mem[v.obj][v.off]
    return v.args[v.i:] if isinstance(v, VaList) else v


def _snprintf(s, a):
    b = c_format(s, s.cstr(a[2]), a[3:])
    if a[1] > 0: s.put_bytes(a[0], b[:a[1] - 1] + b'\0')
    return len(b)
def _sprintf(s, a):
    b = c_format(s, s.cstr(a[1]), a[2:]); s.put_bytes(a[0], b + b'\0'); return len(b)
def _vsnprintf(s, a):
    b = c_format(s, s.cstr(a[2]), _va(s, a[3]))
    if a[1] > 0: s.put_bytes(a[0], b[:a[1] - 1] + b'\0')
    return len(b)
def _vsprintf(s, a):
    b = c_format(s, s.cstr(a[1]), _va(s, a[2])); s.put_bytes(a[0], b + b'\0'); return len(b)
def _vasprintf(s, a):
    b = c_format(s, s.cstr(a[1]), _va(s, a[2]))
    p = s.new_cstr(b)
    if p.obj is None: return 0xffffffff
    s.store(a[0], p, 8); return len(b)
def _asprintf(s, a):
    b = c_format(s, s.cstr(a[1]), a[2:])
    p = s.new_cstr(b)
    if p.obj is None: return 0xffffffff
    s.store(a[0], p, 8); return len(b)


# ---- stdio over in-memory files: s.fs[path] = bytes; FILE objects are interpreter objects carrying a python dict
def _file_new(s, data, mode, path=None):
    p = s.alloc(None, 8, 'heap')
    s.files[p.obj] = {'buf': bytearray(data), 'pos': 0, 'mode': mode, 'path': path, 'eof': False, 'err': False, 'unget': []}
    return p


def _fopen(s, a):
    path = s.cstr(a[0]); mode = s.cstr(a[1]).decode()
    if 'r' in mode:
        if path not in s.fs:
            s.set_errno(2); return NULL
        return _file_new(s, s.fs[path], mode, path)
    return _file_new(s, b'', mode, path)


def _fclose(s, a):
    f = s.files.get(a[0].obj)
    if f is None: raise MemFault('bad-file', 'fclose of %r' % (a[0],))
    if 'r' not in f['mode'] and f['path'] is not None: s.fs[f['path']] = bytes(f['buf'])
    del s.files[a[0].obj]
    s.meta[a[0].obj][1] = False
    return 0


def _F(s, p):
    f = s.files.get(p.obj)
    if f is None: raise MemFault('bad-file', 'stdio call on %r' % (p,))
    return f


def _getc(s, a):
    f = _F(s, a[0])
    if f['unget']: return f['unget'].pop()
    if f['pos'] >= len(f['buf']):
        f['eof'] = True; return 0xffffffff
    c = f['buf'][f['pos']]; f['pos'] += 1
    return c
def _ungetc(s, a):
    c = sgn(a[0] & 0xffffffff, 32)
    if c == -1: return 0xffffffff
    f = _F(s, a[1]); f['unget'].append(c & 255); f['eof'] = False
    return c & 255
def _fputc(s, a):
    _F(s, a[1])['buf'].append(a[0] & 255); return a[0] & 255
def _fputs(s, a):
    _F(s, a[1])['buf'] += s.cstr(a[0]); return 1
def _fprintf(s, a):
    b = c_format(s, s.cstr(a[1]), a[2:]); _F(s, a[0])['buf'] += b; return len(b)
def _vfprintf(s, a):
    b = c_format(s, s.cstr(a[1]), _va(s, a[2])); _F(s, a[0])['buf'] += b; return len(b)
def _fwrite(s, a):
    p, sz, n, fp = a
    f = _F(s, fp)
    for i in range(sz * n): f['buf'].append(s.load(Ptr(p.obj, p.off + i), TInt(8)))
    return n
def _ferror(s, a): return int(_F(s, a[0])['err'])
def _feof(s, a): return int(_F(s, a[0])['eof'])
def _fflush(s, a): return 0


def parse_c_double(b):
    """longest prefix of b that strtod accepts -> (python float or None, length)"""
    import re
    m = re.match(rb'[ \t\n\v\f\r]*([+-]?(?:0[xX](?:[0-9a-fA-F]+\.?[0-9a-fA-F]*|\.[0-9a-fA-F]+)(?:[pP][+-]?\d+)?|(?:\d+\.?\d*|\.\d+)(?:[eE][+-]?\d+)?|[iI][nN][fF](?:[iI][nN][iI][tT][yY])?|[nN][aA][nN]))', b)
    if not m: return None, 0
    return m.group(1), m.end()


def _strtod(s, a):
    b = s.cstr(a[0])
    tok, ln = parse_c_double(b)
    if tok is None:
        if a[1].obj is not None: s.store(a[1], a[0], 8)
        return Rat.const(0.0)
    if a[1].obj is not None: s.store(a[1], Ptr(a[0].obj, a[0].off + ln), 8)
    key = tok.lstrip(b'+-')
    neg = tok.startswith(b'-')
    t = tok.decode().lower()
    if 'nan' in t: return NAN
    if 'inf' in t: return NINF if neg else PINF
    kt = key.decode().lower()
    v = Fraction(float.fromhex(kt)) if kt.startswith('0x') else Fraction(kt)      # exact value of the literal (the real strtod rounds to the nearest double)
    ph = s.placeholders.get(v)
    if ph is not None:
        s.placeholder_reads = getattr(s, 'placeholder_reads', 0) + 1
        return -ph[0] if neg else ph[0]
    sym = getattr(s, 'number_symbols', None)
    if sym is not None and key in sym:
        return -sym[key] if neg else sym[key]
    return Rat.const(-v if neg else v)


def _strtol(s, a):
    import re
    b = s.cstr(a[0]); base = a[2]
    m = re.match(rb'[ \t\n\v\f\r]*([+-]?)(0[xX])?', b)
    i = m.end(); neg = m.group(1) == b'-'
    if m.group(2) and base not in (0, 16): i -= 2
    if base == 0: base = 16 if m.group(2) else (8 if b[i:i + 1] == b'0' else 10)
    j = i; v = 0
    digs = '0123456789abcdefghijklmnopqrstuvwxyz'[:base]
    while j < len(b) and chr(b[j]).lower() in digs: v = v * base + digs.index(chr(b[j]).lower()); j += 1
    if j == i:
        if a[1].obj is not None: s.store(a[1], a[0], 8)
        return 0
    if a[1].obj is not None: s.store(a[1], Ptr(a[0].obj, a[0].off + j), 8)
    v = -v if neg else v
    if v > (1 << 63) - 1: v = (1 << 63) - 1; s.set_errno(34)
    if v < -(1 << 63): v = -(1 << 63); s.set_errno(34)
    return v & ((1 << 64) - 1)


def _unary_uf(name):
    def f(s, a):
        x = a[0]
        if isinstance(x, Special): return NAN
        if x.isconst() and name in ('floor', 'ceil'):
            v = x.value()
            return Rat(Fraction(math.floor(v) if name == 'floor' else math.ceil(v)), Fraction(1))
        if x.isconst():
            v = float(x.value())
            try: r = getattr(math, name)(v)
            except ValueError: return NAN
            if not s.approx: s.__dict__.setdefault('approx_consts', []).append('%s(%r)' % (name, v))     # a constant computed numerically (recorded)
            return Rat.const(r)
        return _uf(s, name, [x])
    return f


def _uf(s, name, xs):
    """uninterpreted real function of the exact quotients of the arguments"""
    fdecl = z3.Function('uf_' + name, *([z3.RealSort()] * (len(xs) + 1)))
    qs = []
    for x in xs:
        s.need_nonzero(x.d) if not isinstance(x.d, Fraction) else None
        qs.append(x.z3num() / x.z3den())
    return Rat(fdecl(*qs), Fraction(1))


def _binary_uf(name):
    def f(s, a):
        if any(isinstance(x, Special) for x in a[:2]): return NAN
        if s.approx and a[0].isconst() and a[1].isconst():
            return Rat.const(float(getattr(math, name)(float(a[0].value()), float(a[1].value()))))
        return _uf(s, name, a[:2])
    return f


def _ld8(s, p, off): return s.load(Ptr(p.obj, p.off + off), TPtr(TInt(8)))


def _insque(s, a):
    e, prev = a
    if prev.obj is None:
        s.store(e, NULL, 8); s.store(Ptr(e.obj, e.off + 8), NULL, 8); return None
    nx = _ld8(s, prev, 0)
    s.store(e, nx, 8); s.store(Ptr(e.obj, e.off + 8), prev, 8)
    s.store(prev, e, 8)
    if nx.obj is not None: s.store(Ptr(nx.obj, nx.off + 8), e, 8)
    return None


def _remque(s, a):
    e = a[0]
    nx = _ld8(s, e, 0); pv = _ld8(s, e, 8)
    if nx.obj is not None: s.store(Ptr(nx.obj, nx.off + 8), pv, 8)
    if pv.obj is not None: s.store(pv, nx, 8)
    return None


def _cfloat(s, a, name):
    if not s.approx or not all(isinstance(x, Rat) and x.isconst() for x in a):
        raise NotImplementedError('%s of a symbolic value (only in approx / concrete mode)' % name)
    return [float(x.value()) for x in a]


def _carg(s, a):
    re, im = _cfloat(s, a[:2], 'carg'); return Rat.const(math.atan2(im, re))
def _cexp(s, a):
    import cmath
    if not s.approx:
        # exp(a + ib) = exp(a) (cos b + i sin b) with uninterpreted exp / cos / sin (exact values at 0)
        re, im = a[:2]
        if isinstance(re, Special) or isinstance(im, Special): return (NAN, NAN)
        def f(name, x, at0):
            if x.isconst() and x.value() == 0: return Rat.const(at0)
            return _uf(s, name, [x])
        m = f('exp', re, 1.0); c = f('cos', im, 1.0); sn = f('sin', im, 0.0)
        return (m * c, m * sn)
    re, im = _cfloat(s, a[:2], 'cexp'); z = cmath.exp(complex(re, im)); return (Rat.const(z.real), Rat.const(z.imag))
def _csqrt(s, a):
    import cmath
    re, im = _cfloat(s, a[:2], 'csqrt'); z = cmath.sqrt(complex(re, im)); return (Rat.const(z.real), Rat.const(z.imag))


def _atoi(s, a):
    import re
    m = re.match(rb'[ \t\n\v\f\r]*([+-]?\d+)', s.cstr(a[0]))
    return (int(m.group(1)) if m else 0) & 0xffffffff


def _fgets(s, a):
    buf, n, fp = a
    n = sgn(n & 0xffffffff, 32)
    f = _F(s, fp)
    out = bytearray()
    while len(out) < n - 1:
        if f['unget']: c = f['unget'].pop()
        elif f['pos'] >= len(f['buf']): f['eof'] = True; break
        else: c = f['buf'][f['pos']]; f['pos'] += 1
        out.append(c)
        if c == 10: break
    if not out: return NULL
    s.put_bytes(buf, bytes(out) + b'\0')
    return buf


def _sscanf(s, a):
    """the few formats libvna uses: literal text, whitespace, %d, %lf, %c"""
    import re
    txt = s.cstr(a[0]); fmt = s.cstr(a[1]); args = list(a[2:]); i = 0; j = 0; n = 0
    while j < len(fmt):
        ch = fmt[j]
        if chr(ch).isspace():
            while i < len(txt) and chr(txt[i]).isspace(): i += 1
            j += 1; continue
        if ch != 0x25:
            if i < len(txt) and txt[i] == ch: i += 1; j += 1; continue
            break
        j += 1
        ln = ''
        while chr(fmt[j]) in 'hlL': ln += chr(fmt[j]); j += 1
        conv = chr(fmt[j]); j += 1
        if conv == 'c':
            if i >= len(txt): break
            s.store(args.pop(0), txt[i], 1); i += 1; n += 1; continue
        while i < len(txt) and chr(txt[i]).isspace(): i += 1
        if conv == 'd':
            m = re.match(rb'[+-]?\d+', txt[i:])
            if not m: break
            s.store(args.pop(0), int(m.group(0)) & 0xffffffff, 4); i += m.end(); n += 1
        elif conv in 'feg':
            tok, ln_ = parse_c_double(txt[i:])
            if tok is None: break
            tmp = s.new_cstr(txt[i:i + ln_], 'stack')
            v = _strtod(s, [tmp, NULL])
            s.store(args.pop(0), v, 8 if ln else 4); i += ln_; n += 1
        else:
            raise NotImplementedError('sscanf conversion %%%s' % conv)
    if n == 0 and i >= len(txt): return 0xffffffff
    return n


LIBC = {
    'atoi': _atoi, 'fgets': _fgets, '__isoc99_sscanf': _sscanf, 'sscanf': _sscanf,
    'carg': _carg, 'cexp': _cexp, 'csqrt': _csqrt,
    'insque': _insque, 'remque': _remque,
    'malloc': _malloc, 'calloc': _calloc, 'realloc': _realloc, 'free': _free,
    'strlen': _strlen, 'strcmp': _strcmp, 'strncmp': _strncmp, 'strcasecmp': _strcasecmp, 'strncasecmp': _strncasecmp,
    'strcpy': _strcpy, 'strncpy': _strncpy, 'strcat': _strcat, 'strdup': _strdup, 'strchr': _strchr, 'strrchr': _strrchr,
    'strerror': _strerror, 'memset': _memset, 'memcpy': _memcpy, 'memmove': _memcpy, 'memcmp': _memcmp,
    '__errno_location': _errno_loc, 'abort': _abort, '__assert_fail': _assert_fail, 'qsort': _qsort,
    'isalpha': _isx(str.isalpha), 'isdigit': _isx(str.isdigit), 'isalnum': _isx(str.isalnum), 'isupper': _isx(str.isupper),
    'islower': _isx(str.islower), 'isspace': _isx(lambda c: c in ' \t\n\v\f\r'), 'isprint': _isx(lambda c: 32 <= ord(c) < 127),
    'isxdigit': _isx(lambda c: c in '0123456789abcdefABCDEF'), 'ispunct': _isx(lambda c: 32 < ord(c) < 127 and not c.isalnum()),
    'iscntrl': _isx(lambda c: ord(c) < 32 or ord(c) == 127), 'isgraph': _isx(lambda c: 32 < ord(c) < 127),
    'isascii': lambda s, a: int(0 <= sgn(a[0], 32) < 128),
    'tolower': lambda s, a: (a[0] + 32 if 65 <= sgn(a[0], 32) <= 90 else a[0]), 'toupper': lambda s, a: (a[0] - 32 if 97 <= sgn(a[0], 32) <= 122 else a[0]),
    'snprintf': _snprintf, 'sprintf': _sprintf, 'vsnprintf': _vsnprintf, 'vsprintf': _vsprintf, 'vasprintf': _vasprintf, 'asprintf': _asprintf,
    'fopen': _fopen, 'fclose': _fclose, 'getc': _getc, 'fgetc': _getc, '_IO_getc': _getc, 'ungetc': _ungetc, 'fputc': _fputc, 'putc': _fputc,
    'fputs': _fputs, 'fprintf': _fprintf, 'vfprintf': _vfprintf, 'fwrite': _fwrite, 'ferror': _ferror, 'feof': _feof, 'fflush': _fflush,
    'strtod': _strtod, 'strtol': _strtol, 'strtoul': _strtol, 'strtoll': _strtol,
    'log10': _unary_uf('log10'), 'log': _unary_uf('log'), 'exp': _unary_uf('exp'), 'cos': _unary_uf('cos'), 'sin': _unary_uf('sin'),
    'floor': _unary_uf('floor'), 'ceil': _unary_uf('ceil'),
    'atan2': _binary_uf('atan2'), 'pow': _binary_uf('pow'), 'hypot': _binary_uf('hypot'),
}


def explore_x(mod, setup, max_paths=64, feas=(), **kw):
    """irsym.explore for XInterp"""
    todo = [[]]; n = 0
    while todo:
        ch = todo.pop()
        it = XInterp(mod, ch, **kw)
        try:
            res = setup(it)
        except Fork as fk:
            alts = []
            for b in (True, False):
                sol = z3.Solver(); sol.set('timeout', 2000)
                for d in it.dens: sol.add(d != 0)
                for p in it.path: sol.add(p)
                for e in feas: sol.add(e)
                sol.add(fk.cond if b else z3.Not(fk.cond))
                if sol.check() != z3.unsat: alts.append(b)
            for b in alts: todo.append(ch + [b])
            continue
        n += 1
        if n > max_paths: raise RuntimeError('too many paths')
        yield it, res
