#!/usr/bin/env python3
"""ll2c: translate LLVM-14 textual IR (clang -O0, then opt -mem2reg -loop-simplify) to plain C
that CBMC's C front end accepts (no _Complex anywhere: clang has already lowered it to
{double,double} and scalar arithmetic) and that gcc compiles to an equivalent native object
(used to validate the translator against the repository's own test-suite and for replay).

usage: ll2c.py in.ll [--uf] [--ovr name,name,...] > out.c
  --uf    : every fadd/fsub/fmul/fdiv/fneg/sqrt/fabs becomes an uninterpreted function
            (__CPROVER_uninterpreted_*), for bit-exact dataflow claims
  --ovr   : libc names the harness overrides; calls and definitions are renamed vf_ovr_<name>
"""
import re, sys, struct
from irparse import *

ICMP = {'eq': ('==', 0), 'ne': ('!=', 0), 'ugt': ('>', 0), 'uge': ('>=', 0), 'ult': ('<', 0), 'ule': ('<=', 0),
        'sgt': ('>', 1), 'sge': ('>=', 1), 'slt': ('<', 1), 'sle': ('<=', 1)}
FCMP = {'oeq': '({a} == {b})', 'ogt': '({a} > {b})', 'oge': '({a} >= {b})', 'olt': '({a} < {b})', 'ole': '({a} <= {b})',
        'one': '({a} < {b} || {a} > {b})', 'ord': '({a} == {a} && {b} == {b})',
        'ueq': '(!({a} < {b} || {a} > {b}))', 'une': '({a} != {b})', 'uno': '({a} != {a} || {b} != {b})',
        'ugt': '(!({a} <= {b}))', 'uge': '(!({a} < {b}))', 'ult': '(!({a} >= {b}))', 'ule': '(!({a} > {b}))',
        'true': '1', 'false': '0'}
BIN = {'add': '+', 'sub': '-', 'mul': '*', 'udiv': '/', 'urem': '%', 'sdiv': '/', 'srem': '%', 'and': '&', 'or': '|',
       'xor': '^', 'shl': '<<', 'lshr': '>>', 'ashr': '>>', 'fadd': '+', 'fsub': '-', 'fmul': '*', 'fdiv': '/'}
SIGNED = {1: 'signed char', 8: 'signed char', 16: 'short', 32: 'int', 64: 'long'}
UNSIGNED = {1: 'u8', 8: 'u8', 16: 'u16', 32: 'u32', 64: 'u64'}
# functions whose IR-level signature differs from the C header's (complex lowered to 2 doubles): declared by us
LOWERED_COMPLEX = {'__muldc3', '__divdc3', 'cabs', 'cexp', 'csqrt', 'carg', 'clog', 'cpow', 'conj', 'creal', 'cimag',
                   'cabsf', 'ccos', 'csin', 'ctan', 'ccosh', 'csinh', 'ctanh', 'cacos', 'casin', 'catan', 'cproj'}
MATH_INTRINSICS = ('fabs', 'sqrt', 'floor', 'ceil', 'log10', 'log2', 'log', 'exp2', 'exp', 'pow', 'sin', 'cos',
                   'round', 'trunc', 'copysign', 'minnum', 'maxnum', 'rint', 'nearbyint')


def cname(n):
    n = n[1:] if n[0] in '%@' else n
    if n.startswith('"'): n = n[1:-1]
    return re.sub(r'[^A-Za-z0-9_]', '_', n)


class Gen:
    def __init__(s, mod, uf=False, ovr=(), alloc_hook=False):
        s.m = mod; s.uf = uf; s.ovr = set(ovr); s.alloc_hook = alloc_hook
        s.tnames = {}; s.tdefs = []; s.all_types = []; s.body = []; s.protos = []
        s.retyped = {}
        s.helpers = {}       # C element type -> helper id (typed calloc/realloc/zero/copy)
        s.strings = {}
        for nm, g in mod.gl.items():
            if isinstance(g.init, CStr):
                s.strings[nm] = bytes(b for b in g.init.bs if b).decode('latin1')

    def fail(s, msg): raise NotImplementedError(msg)

    def fname(s, nm):
        """C name of function @nm"""
        n = nm[1:]
        if n.startswith('"'): n = n[1:-1]
        if n in s.ovr: return 'vf_ovr_' + cname(n)
        return cname(nm)

    def is_header_fn(s, nm):
        n = nm[1:]
        if n.startswith('__CPROVER') or n.startswith('nondet_') or n.startswith('vf_'): return False
        if n in LOWERED_COMPLEX: return False
        if n in ('copysign',) and False: return False
        if n in s.ovr: return False
        return not s.m.fn[nm][1]

    # ---------------------------------------------------------------- types
    def resolve(s, t): return s.m.resolve(t)

    def ct(s, t):
        s.all_types.append(t)
        if isinstance(t, TInt):
            r = {1: 'u8', 8: 'char', 16: 'u16', 32: 'u32', 64: 'u64'}.get(t.n)
            if r is None: s.fail("int width %d" % t.n)
            return r
        if isinstance(t, TFloat): return {'float': 'float', 'double': 'double', 'x86_fp80': 'long double'}[t.k]
        if isinstance(t, TVoid): return 'void'
        if isinstance(t, TPtr):
            if isinstance(t.to, TFunc): return s.fptr(t.to)
            if isinstance(t.to, TVoid): return 'char*'
            return s.ct(t.to) + '*'
        if isinstance(t, TNamed): return 'struct S_' + cname(t.name)
        if isinstance(t, (TStruct, TArr)):
            k = t.key()
            if k not in s.tnames:
                for e in ([t.el] if isinstance(t, TArr) else t.els): s.ct(e)
                s.tnames[k] = 'A%d' % len(s.tnames)
            return 'struct ' + s.tnames[k]
        if isinstance(t, TFunc): return s.fptr(t)
        s.fail("ct %r" % t)

    def fptr(s, ft):
        k = 'fp:' + ft.key()
        if k not in s.tnames:
            args = ', '.join(s.ct(a) for a in ft.args)
            if ft.va: args = (args + ', ...') if args else '...'
            ret = s.ct(ft.ret)
            nm = 'FP%d' % len(s.tnames); s.tnames[k] = nm
            s.tdefs.append('typedef %s (*%s)(%s);' % (ret, nm, args or 'void'))
        return s.tnames[k]

    # ---------------------------------------------------------------- values
    def fconst(s, v):
        d = v.f
        if d != d: return '(0.0/0.0)'
        if d == float('inf'): return '(1.0/0.0)'
        if d == float('-inf'): return '(-1.0/0.0)'
        return '(%s)' % d.hex()

    def ux(s, t, e):
        n = s.resolve(t).n
        return '((%s)%s)' % (UNSIGNED[n], e)

    def sgn(s, t, e):
        n = s.resolve(t).n
        if n == 1: return '(-(int)(%s))' % e
        return '((%s)%s)' % (SIGNED[n], e)

    def sxl(s, t, e):
        return '((long)%s)' % s.sgn(t, e)

    def val(s, v, t, env=None):
        """C expression for operand v of type t"""
        rt = s.resolve(t)
        if isinstance(v, Local):
            nm = 'v_' + cname(v.name)
            if env is not None and nm in env.pending:
                e, ld = env.pending.pop(nm)
                env.consumed_load |= ld
                return '(' + e + ')'
            return nm
        if isinstance(v, GlobalRef):
            if v.name in s.m.fn: return s.fname(v.name)
            return '(&g_%s)' % cname(v.name)
        if isinstance(v, CInt):
            n = v.v
            if n < 0: n += 1 << rt.n
            return '((%s)%dU%s)' % (s.ct(rt), n, 'L' if rt.n > 32 else '')
        if isinstance(v, CFP): return s.fconst(v)
        if isinstance(v, CNull): return '((%s)0)' % s.ct(t)
        if isinstance(v, (CUndef, CZero)):
            if isinstance(rt, (TStruct, TArr)): return '((%s){0})' % s.ct(t)
            return '((%s)0)' % s.ct(t)
        if isinstance(v, CStr):
            return '{{%s}}' % ','.join(str(b if b < 128 else b - 256) for b in v.bs)
        if isinstance(v, CAgg):
            els = [s.val(x, et, env) for et, x in v.els]
            if v.kind == 'arr': return '{{%s}}' % ', '.join(els)
            return '{%s}' % ', '.join(els)
        if isinstance(v, CExpr):
            if v.op == 'getelementptr':
                return s.gep(v.bt, s.val(v.base, v.pt, env), [(it, ix, s.val(ix, it, env)) for it, ix in v.idx])
            if v.op == 'bitcast' and isinstance(v.v, GlobalRef) and v.v.name in s.retyped and isinstance(v.tt, TPtr) \
               and v.tt.to.key() == s.retyped[v.v.name].key():
                return '(&g_%s)' % cname(v.v.name)
            if v.op in CASTS: return s.cast(v.op, v.ft, s.val(v.v, v.ft, env), v.tt)
            if v.op in BIN: return s.binop(v.op, v.ty, s.val(v.a, v.ty, env), s.val(v.b, v.ty, env), v.flags)
            if v.op == 'icmp': return s.icmp(v.cc, v.ty, s.val(v.a, v.ty, env), s.val(v.b, v.ty, env))
        s.fail("val %r" % v)

    def gep(s, bt, base, idx):
        e = base; cur = bt; first = True
        for it, ixv, ix in idx:
            if first:
                if not (isinstance(ixv, CInt) and ixv.v == 0):
                    e = '(%s + %s)' % (e, s.sxl(it, ix))
                first = False; continue
            r = s.resolve(cur)
            if isinstance(r, TStruct):
                e = '(&(%s)->f%d)' % (e, ixv.v); cur = r.els[ixv.v]
            elif isinstance(r, TArr):
                e = '(&(%s)->a[%s])' % (e, s.sxl(it, ix)); cur = r.el
            else:
                s.fail("gep into %s" % r.key())
        return e

    def ufcall(s, name, *args):
        return '__CPROVER_uninterpreted_%s(%s)' % (name, ', '.join(args))

    def binop(s, op, t, a, b, flags):
        rt = s.resolve(t)
        if isinstance(rt, TFloat):
            if s.uf == 'all' or (s.uf == 'muldiv' and op in ('fmul', 'fdiv')): return s.ufcall(op, a, b)
            return '(%s %s %s)' % (a, BIN[op], b)
        c = s.ct(rt)
        if rt.n < 32 and rt.n != 1:
            pa, pb = '(u32)' + s.ux(t, a), '(u32)' + s.ux(t, b)
        else:
            pa, pb = s.ux(t, a), s.ux(t, b)
        if op in ('sdiv', 'srem') or (op in ('add', 'sub', 'mul') and 'nsw' in flags and rt.n >= 32):
            return '((%s)(%s %s %s))' % (c, s.sgn(t, a), BIN[op], s.sgn(t, b))
        if op == 'ashr':
            return '((%s)(%s >> %s))' % (c, s.sgn(t, a), s.ux(t, b))
        if op == 'shl' and 'nsw' in flags and rt.n >= 32:
            return '((%s)(%s << %s))' % (c, s.sgn(t, a), s.ux(t, b))
        return '((%s)(%s %s %s))' % (c, pa, BIN[op], pb)

    def icmp(s, cc, t, a, b):
        o, sg = ICMP[cc]
        if isinstance(s.resolve(t), TPtr): return '(%s %s %s)' % (a, o, b)
        if sg: return '(%s %s %s)' % (s.sgn(t, a), o, s.sgn(t, b))
        return '(%s %s %s)' % (s.ux(t, a), o, s.ux(t, b))

    def cast(s, op, ft, e, tt):
        c = s.ct(tt)
        if op == 'zext': return '((%s)%s)' % (c, s.ux(ft, e))
        if op == 'sext': return '((%s)%s)' % (c, s.sgn(ft, e))
        if op == 'trunc':
            if s.resolve(tt).n == 1: return '((u8)(%s & 1))' % s.ux(ft, e)
            return '((%s)%s)' % (c, s.ux(ft, e))
        if op == 'fptosi': return '((%s)(%s)%s)' % (c, SIGNED[s.resolve(tt).n], e)
        if op == 'sitofp': return '((%s)%s)' % (c, s.sgn(ft, e))
        if op == 'uitofp': return '((%s)%s)' % (c, s.ux(ft, e))
        if op in ('fptoui', 'fptrunc', 'fpext', 'inttoptr', 'ptrtoint'): return '((%s)%s)' % (c, e)
        if op == 'bitcast':
            if isinstance(s.resolve(ft), TPtr) and isinstance(s.resolve(tt), TPtr): return '((%s)%s)' % (c, e)
            if ft.key() == tt.key(): return e
            s.fail("non-pointer bitcast %s -> %s" % (ft.key(), tt.key()))
        s.fail(op)

    def fill_literal(s, t, byte):
        """C expression of type t whose every byte is `byte` (typed equivalent of memset(p, byte, sizeof t))"""
        rt = s.resolve(t)
        if isinstance(rt, TInt):
            n = max(1, rt.n // 8); v = int.from_bytes(bytes([byte]) * n, 'little')
            return '((%s)%dU%s)' % (s.ct(rt), v, 'L' if n > 4 else '')
        if isinstance(rt, TPtr):
            return '((%s)%dUL)' % (s.ct(t), int.from_bytes(bytes([byte]) * 8, 'little'))
        if isinstance(rt, TFloat) and rt.k == 'double':
            return '(%s)' % struct.unpack('<d', bytes([byte]) * 8)[0].hex()
        if isinstance(rt, TStruct):
            els = [s.fill_literal(e, byte) for e in rt.els]
            if any(e is None for e in els): return None
            els = [e[1 + len(s.ct(x)) + 1:] if isinstance(s.resolve(x), (TStruct, TArr)) else e for e, x in zip(els, rt.els)]
            return '(%s){%s}' % (s.ct(t), ', '.join(els))
        if isinstance(rt, TArr):
            e = s.fill_literal(rt.el, byte)
            if e is None: return None
            if isinstance(s.resolve(rt.el), (TStruct, TArr)): e = e[1 + len(s.ct(rt.el)) + 1:]
            return '(%s){{%s}}' % (s.ct(t), ', '.join([e] * rt.n))
        return None

    def helper(s, T_):
        if T_ not in s.helpers: s.helpers[T_] = 'K%d' % len(s.helpers)
        return s.helpers[T_]

    def helper_defs(s):
        o = []
        for T_, k in s.helpers.items():
            zero = '(%s){0}' % T_ if T_.startswith('struct ') else '0'
            o.append('''#ifdef __CPROVER__
static %(T)s* vf_calloc_%(k)s(u64 n) { if (VF_HOOK()) return 0; %(T)s* p = malloc(sizeof(%(T)s) * n); if (p) for (u64 i = 0; i < n; ++i) p[i] = %(z)s; return p; }
static %(T)s* vf_realloc_%(k)s(%(T)s* old, u64 n) { if (VF_HOOK()) return 0; %(T)s* p = malloc(sizeof(%(T)s) * n); if (!p) return p; if (old) { u64 on = __CPROVER_OBJECT_SIZE(old) / sizeof(%(T)s); for (u64 i = 0; i < on && i < n; ++i) p[i] = old[i]; free(old); } return p; }
static void vf_zero_%(k)s(%(T)s* p, u64 n) { for (u64 i = 0; i < n; ++i) p[i] = %(z)s; }
static void vf_copy_%(k)s(%(T)s* d, %(T)s* s, u64 n) { for (u64 i = 0; i < n; ++i) d[i] = s[i]; }
static void vf_move_%(k)s(%(T)s* d, %(T)s* s, u64 n) { if (d <= s) { for (u64 i = 0; i < n; ++i) d[i] = s[i]; } else { for (u64 i = n; i > 0; --i) d[i - 1] = s[i - 1]; } }
#else
static %(T)s* vf_calloc_%(k)s(u64 n) { return calloc(n, sizeof(%(T)s)); }
static %(T)s* vf_realloc_%(k)s(%(T)s* old, u64 n) { return realloc(old, n * sizeof(%(T)s)); }
static void vf_zero_%(k)s(%(T)s* p, u64 n) { memset(p, 0, n * sizeof(%(T)s)); }
static void vf_copy_%(k)s(%(T)s* d, %(T)s* s, u64 n) { memcpy(d, s, n * sizeof(%(T)s)); }
static void vf_move_%(k)s(%(T)s* d, %(T)s* s, u64 n) { memmove(d, s, n * sizeof(%(T)s)); }
#endif''' % {'T': T_, 'k': k, 'z': zero})
        return o

    # ---------------------------------------------------------------- functions
    def emit_function(s, f):
        ft = f.ftype; m = s.m
        decls = {}
        def declare(name, t): decls['v_' + cname(name)] = s.ct(t)
        params = ['%s v_%s' % (s.ct(t), cname(n)) for t, n in zip(ft.args, f.pnames)]
        last_named = ('v_' + cname(f.pnames[-1])) if f.pnames else None
        # use counts and single-use block
        uses = {}; useblk = {}
        for b in f.blocks:
            for I in b.phis:
                for _, v in I.inc:
                    acc = []; locals_in(v, acc)
                    for n in acc: uses[n] = uses.get(n, 0) + 2       # never fold into phi edges
            for I in b.ins + [b.term]:
                for v in operands(I):
                    acc = []; locals_in(v, acc)
                    for n in acc: uses[n] = uses.get(n, 0) + 1; useblk[n] = b.label
        # typed allocation: first pointer bitcast user of each i8* value
        alloc_type = {}
        for b in f.blocks:
            for I in b.ins:
                if I.op == 'bitcast' and isinstance(I.v, Local) and isinstance(I.tt, TPtr) and I.v.name not in alloc_type:
                    if isinstance(s.resolve(I.ft), TPtr) and isinstance(s.resolve(I.ft).to, TInt) and s.resolve(I.ft).to.n == 8:
                        alloc_type[I.v.name] = I.tt.to
        s.castsrc = {}     # i8* local -> element type it was cast from
        for b in f.blocks:
            for I in b.ins:
                if I.op == 'bitcast' and I.dst and isinstance(s.resolve(I.tt), TPtr) and isinstance(s.resolve(I.ft), TPtr):
                    tt = s.resolve(s.resolve(I.tt).to); ft_ = s.resolve(I.ft).to
                    if isinstance(tt, TInt) and tt.n == 8 and not (isinstance(s.resolve(ft_), TInt) and s.resolve(ft_).n == 8) \
                       and not isinstance(s.resolve(ft_), (TVoid, TFunc, TOpaque)):
                        s.castsrc[I.dst] = ft_
        phis = {b.label: b.phis for b in f.blocks}
        for b in f.blocks:
            for I in b.phis:
                declare(I.dst, I.ty); decls['v_' + cname(I.dst) + '_phi'] = s.ct(I.ty)

        class Env: pass
        env = Env(); env.pending = {}; env.consumed_load = False
        out = []

        def edge(src, dst):
            ps = phis.get(dst, [])
            if not ps: return 'goto L_%s;' % cname(dst)
            a = []; bb = []
            for I in ps:
                val = [v for pr, v in I.inc if pr == src]
                assert val, (f.name, src, dst)
                a.append('v_%s_phi = %s;' % (cname(I.dst), s.val(val[0], I.ty)))
                bb.append('v_%s = v_%s_phi;' % (cname(I.dst), cname(I.dst)))
            return '{ %s %s goto L_%s; }' % (' '.join(a), ' '.join(bb), cname(dst))

        def flush(loads_only):
            for k in list(env.pending):
                e, ld = env.pending[k]
                if ld or not loads_only:
                    out.append('%s = %s;' % (k, e)); del env.pending[k]

        def define(I, expr, pure, isload=False):
            """value-producing instruction"""
            dv = 'v_' + cname(I.dst)
            declare(I.dst, instr_result_type(m, I))
            tainted = isload or env.consumed_load
            env.consumed_load = False
            if pure and uses.get(I.dst, 0) == 1 and useblk.get(I.dst) == cur_label[0]:
                env.pending[dv] = (expr, tainted)
            elif uses.get(I.dst, 0) == 0 and pure:
                pass
            else:
                out.append('%s = %s;' % (dv, expr))

        def effect(stmt):
            """statement with side effects: remaining pending loads are materialised first"""
            env.consumed_load = False
            flush(True)
            out.append(stmt)

        cur_label = [None]
        for bi, b in enumerate(f.blocks):
            cur_label[0] = b.label
            out.append('L_%s: ;' % cname(b.label))
            for I in b.ins:
                op = I.op
                V = lambda v, t: s.val(v, t, env)
                if op == 'alloca':
                    dv = 'v_' + cname(I.dst); declare(I.dst, TPtr(I.ty))
                    if I.cnt is None:
                        decls[dv + '_obj'] = s.ct(I.ty)
                        out.append('%s = &%s_obj;' % (dv, dv))
                    else:
                        c = s.ct(I.ty)
                        out.append('%s = (%s*)__builtin_alloca(sizeof(%s) * (unsigned long)%s);' % (dv, c, c, V(I.cnt[1], I.cnt[0])))
                elif op == 'load':
                    define(I, '*%s' % V(I.ptr, I.pt), True, True)
                elif op == 'store':
                    v = V(I.val, I.ty); a = V(I.ptr, I.pt)
                    if v.startswith('{'): v = '(%s)%s' % (s.ct(I.ty), v)
                    effect('*%s = %s;' % (a, v))
                elif op == 'getelementptr':
                    base = V(I.base, I.pt)
                    define(I, s.gep(I.bt, base, [(it, ix, V(ix, it)) for it, ix in I.idx]), True)
                elif op in BIN:
                    a = V(I.a, I.ty); bb = V(I.b, I.ty)
                    define(I, s.binop(op, I.ty, a, bb, I.flags), True)
                elif op == 'frem':
                    a = V(I.a, I.ty); bb = V(I.b, I.ty); define(I, 'fmod(%s, %s)' % (a, bb), True)
                elif op == 'fneg':
                    a = V(I.a, I.ty)
                    define(I, s.ufcall('fneg', a) if s.uf == 'all' else '(-%s)' % a, True)
                elif op == 'icmp':
                    a = V(I.a, I.ty); bb = V(I.b, I.ty); define(I, s.icmp(I.cc, I.ty, a, bb), True)
                elif op == 'fcmp':
                    a = V(I.a, I.ty); bb = V(I.b, I.ty)
                    # operands may be duplicated in the pattern: materialise complex ones
                    ta = a; tb = bb
                    if len(a) > 40:
                        ta = 'v_%s_fa' % cname(I.dst); decls[ta] = s.ct(I.ty); out.append('%s = %s;' % (ta, a))
                    if len(bb) > 40:
                        tb = 'v_%s_fb' % cname(I.dst); decls[tb] = s.ct(I.ty); out.append('%s = %s;' % (tb, bb))
                    define(I, FCMP[I.cc].format(a=ta, b=tb), True)
                elif op in CASTS:
                    e = V(I.v, I.ft); define(I, s.cast(op, I.ft, e, I.tt), True)
                elif op == 'select':
                    c = V(I.c, TInt(1)); a = V(I.a, I.ty); bb = V(I.b, I.ty)
                    define(I, '(%s ? %s : %s)' % (c, a, bb), True)
                elif op == 'freeze':
                    define(I, V(I.a, I.ty), True)
                elif op == 'extractvalue':
                    e = V(I.a, I.ty); cur = I.ty
                    for i in I.path:
                        r = s.resolve(cur)
                        if isinstance(r, TStruct): e += '.f%d' % i; cur = r.els[i]
                        else: e += '.a[%d]' % i; cur = r.el
                    define(I, e, True)
                elif op == 'insertvalue':
                    dv = 'v_' + cname(I.dst); declare(I.dst, I.ty)
                    a = V(I.a, I.ty); v = V(I.v, I.vt); e = dv; cur = I.ty
                    for i in I.path:
                        r = s.resolve(cur)
                        if isinstance(r, TStruct): e += '.f%d' % i; cur = r.els[i]
                        else: e += '.a[%d]' % i; cur = r.el
                    env.consumed_load = False
                    out.append('%s = %s; %s = %s;' % (dv, a, e, v))
                elif op == 'call':
                    st = s.call(I, env, alloc_type, last_named)
                    if I.dst: declare(I.dst, I.ret)
                    if st is not None:
                        if isinstance(st, tuple):      # pure expression call (math intrinsic)
                            define(I, st[0], True)
                        else:
                            effect(st)
                else:
                    s.fail("opcode %s in %s" % (op, f.name))
            T = b.term
            if T.op == 'br':
                if T.c is None:
                    flush(False); out.append(edge(b.label, T.a))
                else:
                    c = s.val(T.c, TInt(1), env); flush(False)
                    out.append('if (%s) %s else %s' % (c, edge(b.label, T.a), edge(b.label, T.b)))
            elif T.op == 'ret':
                if T.v is None: flush(False); out.append('return;')
                else:
                    e = s.val(T.v, T.ty, env); flush(False); out.append('return %s;' % e)
            elif T.op == 'switch':
                v = s.val(T.v, T.ty, env); flush(False)
                n = s.resolve(T.ty).n
                def cv(x):
                    if x < 0: x += 1 << n
                    return '%dU%s' % (x, 'L' if n > 32 else '')
                out.append('switch (%s) { %s default: %s }' % (
                    s.ux(T.ty, v), ' '.join('case %s: %s' % (cv(x), edge(b.label, lb)) for x, lb in T.cases),
                    edge(b.label, T.dflt)))
            elif T.op == 'unreachable':
                flush(False); out.append('__CPROVER_assume(0);')
            env.pending.clear(); env.consumed_load = False
        used = set(re.findall(r'\bv_\w+\b', '\n'.join(out)))
        va = ', ...' if ft.va else ''
        head = '%s %s(%s%s)' % (s.ct(ft.ret), s.fname(f.name), ', '.join(params) or ('void' if not ft.va else ''), va)
        s.protos.append(head + ';')
        s.body.append(head + '\n{\n' + ''.join('    %s %s;\n' % (c, n) for n, c in decls.items() if n in used) +
                      ''.join('    %s\n' % o for o in out) + '}\n')

    def call(s, I, env, alloc_type, last_named):
        args = [s.val(v, t, env) for t, v in I.args]
        atys = [t for t, _ in I.args]
        ret = I.ret
        dv = ('v_' + cname(I.dst)) if I.dst else None
        asg = (dv + ' = ') if dv else ''
        callee = I.callee.name if isinstance(I.callee, GlobalRef) else None
        if callee and callee.startswith('@llvm.'):
            n = callee[6:]; base = n.split('.')[0]
            if n.startswith('dbg.') or n.startswith('lifetime.') or n.startswith('stackrestore') or \
               n.startswith('assume') or n.startswith('experimental.noalias') or n.startswith('prefetch'):
                return None
            if n.startswith('stacksave'): return asg + '(char*)0;'
            if base in ('memcpy', 'memmove', 'memset'):
                a0 = I.args[0][1]; a1 = I.args[1][1]
                et = s.castsrc.get(a0.name) if isinstance(a0, Local) else None
                if et is not None and base == 'memset' and isinstance(a1, CInt) and a1.v == 0:
                    T_ = s.ct(et); k = s.helper(T_)
                    return 'vf_zero_%s((%s*)%s, %s / sizeof(%s));' % (k, T_, args[0], args[2], T_)
                if et is not None and base == 'memset' and isinstance(a1, CInt) and a1.v != 0 and isinstance(I.args[2][1], CInt) \
                   and I.args[2][1].v == s.m.sizeof(et):
                    lit = s.fill_literal(et, a1.v & 0xff)
                    if lit is not None:
                        return '*((%s*)%s) = %s;' % (s.ct(et), args[0], lit)
                if et is not None and base != 'memset' and isinstance(a1, Local) and a1.name in s.castsrc \
                   and s.castsrc[a1.name].key() == et.key():
                    T_ = s.ct(et); k = s.helper(T_)
                    return 'vf_%s_%s((%s*)%s, (%s*)%s, %s / sizeof(%s));' % ('copy' if base == 'memcpy' else 'move', k, T_, args[0], T_, args[1], args[2], T_)
                return '%s(%s, %s, %s);' % (base, args[0], args[1] if base != 'memset' else '(int)' + args[1], args[2])
            if base in MATH_INTRINSICS:
                cf = {'minnum': 'fmin', 'maxnum': 'fmax'}.get(base, base)
                if (s.uf == 'all' and base in ('fabs', 'sqrt')) or (s.uf == 'muldiv' and base == 'sqrt'): return (s.ufcall(base, *args),)
                return ('%s(%s)' % (cf, ', '.join(args)),)
            if base == 'fmuladd' or base == 'fma':
                if s.uf == 'all': return (s.ufcall('fadd', s.ufcall('fmul', args[0], args[1]), args[2]),)
                if s.uf == 'muldiv': return ('(%s + %s)' % (s.ufcall('fmul', args[0], args[1]), args[2]),)
                return ('(%s * %s + %s)' % tuple(args),)
            if base == 'va_start': return 'va_start(*(va_list*)%s, %s);' % (args[0], last_named)
            if base == 'va_end': return 'va_end(*(va_list*)%s);' % args[0]
            if base == 'va_copy': return 'va_copy(*(va_list*)%s, *(va_list*)%s);' % (args[0], args[1])
            if base in ('abs', 'smax', 'smin', 'umax', 'umin'):
                t = atys[0]
                a = s.sgn(t, args[0]) if base[0] != 'u' else s.ux(t, args[0])
                if base == 'abs': return ('((%s)(%s < 0 ? -%s : %s))' % (s.ct(ret), a, a, a),)
                b = s.sgn(t, args[1]) if base[0] != 'u' else s.ux(t, args[1])
                o = '>' if base.endswith('max') else '<'
                return ('((%s)(%s %s %s ? %s : %s))' % (s.ct(ret), a, o, b, a, b),)
            if base == 'trap': return '__CPROVER_assert(0, "llvm.trap"); __CPROVER_assume(0);'
            if base == 'expect': return (args[0],)
            if base == 'is': # llvm.is.fpclass not in 14
                pass
            s.fail("intrinsic " + n)
        rc = s.ct(ret)
        def gstr(a):
            mm = re.search(r'&g_(\w+)\)', a)
            if not mm: return None
            for nm, st in s.strings.items():
                if cname(nm) == mm.group(1): return st
            return None
        if callee == '@__assert_fail':
            ln = re.search(r'(\d+)U', args[2])
            msg = 'assert(%s) %s:%s' % (gstr(args[0]) or '?', (gstr(args[1]) or '?').split('/')[-1], ln.group(1) if ln else '?')
            return '__CPROVER_assert(0, "%s"); __CPROVER_assume(0);' % msg.replace('\\', '').replace('"', "'")
        if callee == '@__CPROVER_assert':
            msg = gstr(args[1]) or 'assertion'
            return '__CPROVER_assert(%s, "%s");' % (args[0], msg.replace('\\', '').replace('"', "'"))
        if callee in ('@abort', '@exit', '@_exit'):
            return '__CPROVER_assert(0, "%s called"); __CPROVER_assume(0);' % callee[1:]
        if callee in ('@malloc', '@calloc', '@realloc') and callee[1:] not in s.ovr and I.dst in alloc_type \
           and not isinstance(s.resolve(alloc_type[I.dst]), (TVoid, TFunc, TOpaque)):
            T_ = s.ct(alloc_type[I.dst]); k = s.helper(T_)
            if callee == '@malloc':
                e = 'malloc(sizeof(%s) * (%s / sizeof(%s)))' % (T_, args[0], T_)
                if s.alloc_hook: return 'if (VF_HOOK()) %s0; else %s(%s)%s;' % (asg, asg, rc, e)
            elif callee == '@calloc': e = 'vf_calloc_%s((%s * %s) / sizeof(%s))' % (k, args[0], args[1], T_)
            else: e = 'vf_realloc_%s((%s*)%s, %s / sizeof(%s))' % (k, T_, args[0], args[1], T_)
            return '%s(%s)%s;' % (asg, rc, e)
        if callee in ('@sqrt', '@fabs') and s.uf and not (callee == '@fabs' and s.uf == 'muldiv'):
            return (s.ufcall(callee[1:], *args),)
        if callee in ('@malloc', '@calloc') and s.alloc_hook and callee[1:] not in s.ovr:
            return 'if (VF_HOOK()) %s0; else %s(%s)%s(%s);' % (asg, asg, rc, callee[1:], ', '.join(args))
        if callee and s.is_header_fn(callee):
            cexpr = cname(callee)
            call = '%s(%s)' % (cexpr, ', '.join('(void*)' + a if isinstance(s.resolve(t), TPtr) else a for t, a in zip(atys, args)))
            if asg: return '%s(%s)%s;' % (asg, rc, call)
            return call + ';'
        cexpr = s.fname(callee) if callee else s.val(I.callee, TPtr(TVoid()), env)
        return '%s%s(%s);' % (asg, cexpr, ', '.join(args))

    # ---------------------------------------------------------------- output
    def flatten(s, v, t, out):
        rt = s.resolve(t)
        if isinstance(rt, (TInt, TFloat, TPtr)):
            out.append((t, CInt(0) if isinstance(v, (CZero, CUndef)) and isinstance(rt, TInt) else (CNull() if isinstance(v, (CZero, CUndef)) and isinstance(rt, TPtr) else v)))
        elif isinstance(rt, TArr):
            for i in range(rt.n):
                s.flatten(v if isinstance(v, (CZero, CUndef)) else v.els[i][1], rt.el, out)
        elif isinstance(rt, TStruct):
            for i, e in enumerate(rt.els):
                s.flatten(v if isinstance(v, (CZero, CUndef)) else v.els[i][1], e, out)
        else:
            raise NotImplementedError('flatten ' + t.key())

    def nest(s, scalars, t):
        rt = s.resolve(t)
        if isinstance(rt, TArr):
            return CAgg([(rt.el, s.nest(scalars, rt.el)) for _ in range(rt.n)], 'arr')
        if isinstance(rt, TStruct):
            return CAgg([(e, s.nest(scalars, e)) for e in rt.els], 'struct')
        return scalars.pop(0)[1]

    def retype_packed_globals(s, text):
        """clang emits constant arrays with zero runs as packed anonymous structs and accesses them through a constant
        bitcast to the array type; give such globals the array type (CBMC mis-resolves indexing across the struct's members)"""
        for nm, g in s.m.gl.items():
            rt = g.ty
            if not (isinstance(rt, TStruct) and rt.packed) or g.init is None: continue
            tgt = set(re.findall(r'bitcast \(<\{[^@]*\}>\* %s to (\[[^@]*?\])\*\)' % re.escape(nm), text))
            if len(tgt) != 1: continue
            try:
                T = P(lex(tgt.pop())).type()
                if s.m.sizeof(T) != s.m.sizeof(rt): continue
                sc = []; s.flatten(g.init, rt, sc)
                g.init = s.nest(sc, T); g.ty = T; s.retyped[nm] = T
            except Exception as e:
                continue

    def generate(s, only=None):
        m = s.m
        for nm in m.order:
            if only is None or nm in only: s.emit_function(m.funcs[nm])
        o = ['#define _GNU_SOURCE', '#include <stdarg.h>', '#include <stddef.h>', '#include <yaml.h>', '#include <search.h>',
             '#include <stdlib.h>', '#include <string.h>', '#include <strings.h>', '#include <math.h>', '#include <stdio.h>',
             '#include <ctype.h>', '#include <errno.h>', '#include <unistd.h>', '#include <float.h>',
             'typedef unsigned char u8; typedef unsigned short u16; typedef unsigned int u32; typedef unsigned long u64;',
             '#ifndef __CPROVER__', 'void __CPROVER_assume(int); void __CPROVER_assert(int, const char *);', '#endif']
        if s.uf:
            for f_ in ('fadd', 'fsub', 'fmul', 'fdiv'): o.append('double __CPROVER_uninterpreted_%s(double, double);' % f_)
            for f_ in ('fneg', 'fabs', 'sqrt'): o.append('double __CPROVER_uninterpreted_%s(double);' % f_)
        gvals = []
        for nm, g in m.gl.items():
            c = s.ct(g.ty)
            if g.ext: gvals.append('extern %s g_%s;' % (c, cname(nm)))
            elif g.init is None: gvals.append('%s g_%s;' % (c, cname(nm)))
            else:
                init = s.val(g.init, g.ty)
                if init.startswith('((') and init.endswith('{0})'): init = '{0}'
                elif init.startswith('((') and isinstance(g.init, (CZero, CUndef)): init = '0'
                gvals.append('%s%s g_%s = %s;' % ('const ' if g.const else '', c, cname(nm), init))
        for nm, r in m.named.items():
            if not isinstance(r, TOpaque):
                for e in r.els: s.ct(e)
        for nm, (ft, defined) in m.fn.items(): s.ct(ft.ret); [s.ct(a) for a in ft.args]
        structs = {}
        lit_types = {}
        def walk(t):
            if isinstance(t, (TArr, TStruct)):
                if t.key() in lit_types: return
                lit_types[t.key()] = t
                for e in ([t.el] if isinstance(t, TArr) else t.els): walk(e)
            elif isinstance(t, TPtr): walk(t.to)
            elif isinstance(t, TFunc):
                walk(t.ret)
                for a in t.args: walk(a)
        for t in list(s.all_types): walk(t)
        for nm, r in m.named.items():
            if not isinstance(r, TOpaque): walk(r)
        def byval(t, acc):
            if isinstance(t, TNamed): acc.append('S_' + cname(t.name))
            elif isinstance(t, (TArr, TStruct)): s.ct(t); acc.append(s.tnames[t.key()])
        for nm, r in m.named.items():
            if isinstance(r, TOpaque): continue
            deps = []
            for e in r.els: byval(e, deps)
            fs = ' '.join('%s f%d;' % (s.ct(e), i) for i, e in enumerate(r.els)) or 'char dummy;'
            structs['S_' + cname(nm)] = ('struct S_%s { %s }%s;' % (cname(nm), fs, ' __attribute__((packed))' if r.packed else ''), deps)
        for k, t in list(lit_types.items()):
            s.ct(t); deps = []
            if isinstance(t, TArr):
                byval(t.el, deps)
                structs[s.tnames[k]] = ('struct %s { %s a[%d]; };' % (s.tnames[k], s.ct(t.el), max(t.n, 1)), deps)
            else:
                for e in t.els: byval(e, deps)
                body = ' '.join('%s f%d;' % (s.ct(e), i) for i, e in enumerate(t.els)) or 'char dummy;'
                structs[s.tnames[k]] = ('struct %s { %s }%s;' % (s.tnames[k], body, ' __attribute__((packed))' if t.packed else ''), deps)
        for nm in m.named: o.append('struct S_%s;' % cname(nm))
        for k in structs:
            if not k.startswith('S_'): o.append('struct %s;' % k)
        o += [d for d in s.tdefs if d.startswith('typedef')]
        done = set()
        def emit(k):
            if k in done or k not in structs: return
            done.add(k)
            for d in structs[k][1]: emit(d)
            o.append(structs[k][0])
        for k in list(structs): emit(k)
        # typedefs created late (function pointer types inside struct fields)
        o2 = [d for d in s.tdefs if d.startswith('typedef') and d not in o]
        for nm, (ft, defined) in m.fn.items():
            if defined or nm.startswith('@llvm.') or s.is_header_fn(nm): continue
            if nm[1:].startswith('__CPROVER'): continue
            args = ', '.join(s.ct(a) for a in ft.args)
            if ft.va: args = (args + ', ...') if args else '...'
            o.append('%s %s(%s);' % (s.ct(ft.ret), s.fname(nm), args or 'void'))
        o += o2
        o += ['#ifdef __CPROVER__', ('extern u32 vf_alloc_hook(void);\n#define VF_HOOK() vf_alloc_hook()' if s.alloc_hook else '#define VF_HOOK() 0'), '#else', '#define VF_HOOK() 0', '#endif']
        o += s.helper_defs()
        o += s.protos + ['extern %s%s g_%s;' % ('const ' if g.const else '', s.ct(g.ty), cname(nm)) for nm, g in m.gl.items()] + gvals + s.body
        return '\n'.join(o) + '\n'


if __name__ == '__main__':
    a = sys.argv[1:]
    uf = 'all' if '--uf' in a else ('muldiv' if '--uf-muldiv' in a else False)
    ovr = []
    if '--ovr' in a: ovr = a[a.index('--ovr') + 1].split(',')
    text = open(a[0]).read()
    g = Gen(Module(text), uf=uf, ovr=ovr, alloc_hook='--alloc-hook' in a)
    g.retype_packed_globals(text)
    sys.stdout.write(g.generate())
