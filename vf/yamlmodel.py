"""Model of the libyaml DOCUMENT API for vf/irx.py (libyaml is a binary without source in this image).

What is modelled: the document object (yaml_document_initialize / add_scalar / add_sequence / add_mapping / append_* / get_node /
get_root_node / delete) with yaml_node_t records laid out in interpreter memory exactly as the x86-64 ABI of <yaml.h> lays them out
(the library reads node->type, node->data.scalar.value, node->data.sequence.items.start/top, node->data.mapping.pairs.start/top and
node->start_mark.line directly), and emitter + parser as an IDENTITY on documents: yaml_emitter_dump serialises the document to a
private text form in the output FILE (and, like libyaml, destroys the document), yaml_parser_load rebuilds exactly that document.
What is therefore assumed, not checked: that libyaml's emitter followed by its parser reproduces node kinds, order and scalar bytes.
"""
import json
from irsym import Ptr
from irx import NULL, sgn, MemFault

NODE_SIZE = 96
OFF_TYPE, OFF_TAG, OFF_A, OFF_B, OFF_C, OFF_STYLE2, OFF_LINE = 0, 8, 16, 24, 32, 40, 56
SCALAR, SEQUENCE, MAPPING = 1, 2, 3
MAGIC = b'%VF-YAML-DOCUMENT-MODEL\n'


class YamlModel:
    def __init__(s, it):
        s.it = it
        s.docs = {}        # (obj, off) -> {'nodes': [...], 'mat': {id: Ptr}, 'objs': [obj names]}
        s.emitters = {}    # (obj, off) -> FILE ptr
        s.parsers = {}     # (obj, off) -> {'fp': ptr | None, 'text': bytes | None, 'done': bool}
        h = it.hooks
        for name in ('yaml_document_initialize', 'yaml_document_add_scalar', 'yaml_document_add_sequence', 'yaml_document_add_mapping',
                     'yaml_document_append_sequence_item', 'yaml_document_append_mapping_pair', 'yaml_document_delete', 'yaml_document_get_node',
                     'yaml_document_get_root_node', 'yaml_emitter_initialize', 'yaml_emitter_set_output_file', 'yaml_emitter_set_encoding',
                     'yaml_emitter_set_unicode', 'yaml_emitter_set_width', 'yaml_emitter_set_canonical', 'yaml_emitter_set_break', 'yaml_emitter_open',
                     'yaml_emitter_dump', 'yaml_emitter_close', 'yaml_emitter_delete', 'yaml_parser_initialize', 'yaml_parser_set_input_file',
                     'yaml_parser_set_input_string', 'yaml_parser_load', 'yaml_parser_delete'):
            h[name] = getattr(s, name[5:])

    @staticmethod
    def key(p): return (p.obj, p.off)

    def doc(s, p):
        d = s.docs.get(s.key(p))
        if d is None: raise MemFault('bad-yaml', 'document API call on a document that was never initialised / already deleted: %r' % (p,))
        return d

    def _drop_mat(s, d):
        for o in d['objs']:
            s.it.meta[o][1] = False; s.it.mem[o] = {}
        d['objs'] = []; d['mat'] = {}

    # ---- document
    # libyaml allocates internal buffers in *_initialize and releases them in *_delete: one heap token per object stands for them, so a
    # missing yaml_parser_delete / yaml_emitter_delete / yaml_document_delete shows up as a leak
    def _token(s, kind, p):
        t = s.it.heap_alloc(1)
        s.__dict__.setdefault('tokens', {})[(kind,) + s.key(p)] = t
        return t

    def _untoken(s, kind, p):
        t = s.__dict__.setdefault('tokens', {}).pop((kind,) + s.key(p), None)
        if t is not None and t.obj is not None: s.it.heap_free(t)

    def document_initialize(s, it, a):
        s._untoken('doc', a[0])
        s.docs[s.key(a[0])] = {'nodes': [], 'mat': {}, 'objs': []}
        s._token('doc', a[0])
        return 1

    def _bytes(s, p, n):
        n = sgn(n & 0xffffffff, 32) if n >> 31 and n < (1 << 32) else n
        if n >= (1 << 63): n -= 1 << 64
        if n < 0: return s.it.cstr(p)
        from irparse import TInt
        return bytes(s.it.load(Ptr(p.obj, p.off + i), TInt(8)) for i in range(n))

    def document_add_scalar(s, it, a):
        d = s.doc(a[0]); s._drop_mat(d)
        v = s._bytes(a[2], a[3]); st = sgn(a[4] & 0xffffffff, 32)
        # scalar style as the parser will report it after the emitter wrote the node: the requested style, and for ANY what libyaml picks
        # (plain where a plain scalar is possible; an empty string cannot be plain)
        if st == 0: st = 1 if v != b'' else 2
        d['nodes'].append({'t': SCALAR, 'v': v, 'st': st})
        return len(d['nodes'])

    def document_add_sequence(s, it, a):
        d = s.doc(a[0]); s._drop_mat(d)
        d['nodes'].append({'t': SEQUENCE, 'items': []}); return len(d['nodes'])

    def document_add_mapping(s, it, a):
        d = s.doc(a[0]); s._drop_mat(d)
        d['nodes'].append({'t': MAPPING, 'pairs': []}); return len(d['nodes'])

    def _node(s, d, i, want):
        i = sgn(i & 0xffffffff, 32)
        if not (1 <= i <= len(d['nodes'])) or d['nodes'][i - 1]['t'] != want:
            raise MemFault('bad-yaml', 'node id %d is not a %s node of the document (libyaml asserts)' % (i, {2: 'sequence', 3: 'mapping'}[want]))
        return d['nodes'][i - 1]

    def document_append_sequence_item(s, it, a):
        d = s.doc(a[0]); s._drop_mat(d)
        item = sgn(a[2] & 0xffffffff, 32)
        if not (1 <= item <= len(d['nodes'])): raise MemFault('bad-yaml', 'item id %d out of range' % item)
        s._node(d, a[1], SEQUENCE)['items'].append(item); return 1

    def document_append_mapping_pair(s, it, a):
        d = s.doc(a[0]); s._drop_mat(d)
        k, v = sgn(a[2] & 0xffffffff, 32), sgn(a[3] & 0xffffffff, 32)
        for x in (k, v):
            if not (1 <= x <= len(d['nodes'])): raise MemFault('bad-yaml', 'node id %d out of range' % x)
        s._node(d, a[1], MAPPING)['pairs'].append((k, v)); return 1

    def document_delete(s, it, a):
        d = s.docs.get(s.key(a[0]))
        if d is not None:
            s._drop_mat(d); d['nodes'] = []      # like libyaml: content released, the struct itself stays with the caller
        s._untoken('doc', a[0])
        return None

    def _materialise(s, d, i):
        it = s.it
        if i in d['mat']: return d['mat'][i]
        nd = d['nodes'][i - 1]
        p = it.alloc(None, NODE_SIZE, 'yaml'); d['objs'].append(p.obj)
        it.memset(p, 0, NODE_SIZE)
        it.store(p, nd['t'], 4)
        it.store(Ptr(p.obj, OFF_TAG), NULL, 8)
        it.store(Ptr(p.obj, OFF_LINE), i, 8)             # a stand-in line number (only used in messages)
        if nd['t'] == SCALAR:
            v = it.alloc(None, len(nd['v']) + 1, 'yaml'); d['objs'].append(v.obj)
            it.put_bytes(v, nd['v'] + b'\0')
            it.store(Ptr(p.obj, OFF_A), v, 8); it.store(Ptr(p.obj, OFF_B), len(nd['v']), 8); it.store(Ptr(p.obj, OFF_C), nd.get('st', 1), 4)
        else:
            seq = nd['t'] == SEQUENCE
            n = len(nd['items'] if seq else nd['pairs']); esz = 4 if seq else 8
            arr = it.alloc(None, max(esz * n, 1), 'yaml'); d['objs'].append(arr.obj)
            if seq:
                for k, x in enumerate(nd['items']): it.store(Ptr(arr.obj, 4 * k), x, 4)
            else:
                for k, (x, y) in enumerate(nd['pairs']): it.store(Ptr(arr.obj, 8 * k), x, 4); it.store(Ptr(arr.obj, 8 * k + 4), y, 4)
            it.store(Ptr(p.obj, OFF_A), arr, 8); it.store(Ptr(p.obj, OFF_B), Ptr(arr.obj, esz * n), 8); it.store(Ptr(p.obj, OFF_C), Ptr(arr.obj, esz * n), 8)
            it.store(Ptr(p.obj, OFF_STYLE2), 1, 4)
        d['mat'][i] = p
        return p

    def document_get_node(s, it, a):
        d = s.doc(a[0]); i = sgn(a[1] & 0xffffffff, 32)
        if not (1 <= i <= len(d['nodes'])): return NULL
        return s._materialise(d, i)

    def document_get_root_node(s, it, a):
        d = s.doc(a[0])
        if not d['nodes']: return NULL
        return s._materialise(d, 1)

    # ---- emitter
    def emitter_initialize(s, it, a): s.emitters[s.key(a[0])] = None; s._token('emitter', a[0]); return 1
    def emitter_set_output_file(s, it, a): s.emitters[s.key(a[0])] = a[1]; return None
    def emitter_set_encoding(s, it, a): return None
    def emitter_set_unicode(s, it, a): return None
    def emitter_set_width(s, it, a): return None
    def emitter_set_canonical(s, it, a): return None
    def emitter_set_break(s, it, a): return None
    def emitter_open(s, it, a): return 1
    def emitter_close(s, it, a): return 1
    def emitter_delete(s, it, a): s.emitters.pop(s.key(a[0]), None); s._untoken('emitter', a[0]); return None

    def _tree(s, d, i, depth=0):
        if depth > 200: raise MemFault('bad-yaml', 'cyclic document')
        nd = d['nodes'][i - 1]
        if nd['t'] == SCALAR: return ['s', nd['v'].decode('latin-1'), nd.get('st', 1)]
        if nd['t'] == SEQUENCE: return ['q', [s._tree(d, x, depth + 1) for x in nd['items']]]
        return ['m', [[s._tree(d, k, depth + 1), s._tree(d, v, depth + 1)] for k, v in nd['pairs']]]

    def emitter_dump(s, it, a):
        import irx
        fp = s.emitters.get(s.key(a[0]))
        if fp is None: raise MemFault('bad-yaml', 'yaml_emitter_dump without an output file')
        d = s.doc(a[1])
        txt = MAGIC + (json.dumps(s._tree(d, 1)) if d['nodes'] else 'null').encode('latin-1') + b'\n'
        irx._F(it, fp)['buf'] += txt
        s._drop_mat(d); d['nodes'] = []          # the emitter takes the document over and destroys its content
        s._untoken('doc', a[1])
        return 1

    # ---- parser
    def parser_initialize(s, it, a):
        s.parsers[s.key(a[0])] = {'fp': None, 'text': None, 'done': False}
        it.store(a[0], 0, 4)
        s._token('parser', a[0])
        return 1

    def parser_set_input_file(s, it, a): s.parsers[s.key(a[0])]['fp'] = a[1]; return None

    def parser_set_input_string(s, it, a):
        s.parsers[s.key(a[0])]['text'] = s._bytes(a[1], a[2]); return None

    def parser_delete(s, it, a): s.parsers.pop(s.key(a[0]), None); s._untoken('parser', a[0]); return None

    def parser_load(s, it, a):
        import irx
        ps = s.parsers[s.key(a[0])]
        d = {'nodes': [], 'mat': {}, 'objs': []}
        s._untoken('doc', a[1])
        s.docs[s.key(a[1])] = d
        s._token('doc', a[1])
        if ps['done']: return 1                 # end of stream: an empty document
        if ps['fp'] is not None:
            f = irx._F(it, ps['fp']); txt = bytes(f['buf'][f['pos']:]); f['pos'] = len(f['buf']); f['eof'] = True
        else: txt = ps['text'] or b''
        ps['done'] = True
        body = txt.lstrip()
        if not body.startswith(MAGIC.strip()):
            raise NotImplementedError('yaml_parser_load of text that the emitter model did not write (real YAML syntax is outside the model)')
        tree = json.loads(body[len(MAGIC.strip()):].decode('latin-1'))
        def build(t):
            if t[0] == 's': d['nodes'].append({'t': SCALAR, 'v': t[1].encode('latin-1'), 'st': t[2] if len(t) > 2 else 1}); return len(d['nodes'])
            if t[0] == 'q':
                d['nodes'].append({'t': SEQUENCE, 'items': []}); i = len(d['nodes'])
                for x in t[1]: d['nodes'][i - 1]['items'].append(build(x))
                return i
            d['nodes'].append({'t': MAPPING, 'pairs': []}); i = len(d['nodes'])
            for k, v in t[1]:
                ki = build(k); vi = build(v); d['nodes'][i - 1]['pairs'].append((ki, vi))
            return i
        if tree is not None: build(tree)
        return 1
