#!/usr/bin/env python3
"""irsym: symbolic interpreter for LLVM-14 IR (clang -O0 + mem2reg) with CONCRETE integers / pointers / control flow and
SYMBOLIC doubles, for the numeric leaf kernels of libvna (vnaconv_*, LU, ...).

Doubles are carried as exact rational functions num/den whose numerator and denominator are z3 Real terms ('real' mode:
the field R, no rounding, no overflow, no NaN), so every claim made through this engine is ALGEBRAIC.  Comparisons on
symbolic doubles fork the execution (each path carries its path condition); 'fcmp uno' (NaN tests clang puts around
complex multiplications) is false.  The final property is handed to z3 as "exists inputs with all denominators non-zero,
the path condition, and NOT property": unsat = holds on that path for all real inputs; sat = a rational counterexample.
"""
import sys, os, math, struct
from fractions import Fraction
import z3
from irparse import *


class Rat:
    """num/den with z3 Real terms (or python Fractions while constant)"""
    __slots__ = ('n', 'd')

    def __init__(s, n, d=1):
        s.n = Fraction(n) if isinstance(n, int) else n
        s.d = Fraction(d) if isinstance(d, int) else d
        if isinstance(s.n, Fraction) and isinstance(s.d, Fraction) and s.d != 1:
            s.n = s.n / s.d; s.d = Fraction(1)       # constants stay normalised (ZeroDivisionError on a constant 0 divisor)

    @staticmethod
    def const(x):
        if isinstance(x, float):
            if x != x or x in (float('inf'), float('-inf')): raise ValueError('non-finite constant')
            x = Fraction(x)
        return Rat(Fraction(x), Fraction(1))

    def isconst(s): return isinstance(s.n, Fraction) and isinstance(s.d, Fraction)

    def value(s): return s.n / s.d

    @staticmethod
    def _m(a, b):
        if isinstance(a, Fraction) and isinstance(b, Fraction): return a * b
        if isinstance(a, Fraction):
            if a == 1: return b
            if a == 0: return Fraction(0)
            a = z3.RealVal(str(a))
        if isinstance(b, Fraction):
            if b == 1: return a
            if b == 0: return Fraction(0)
            b = z3.RealVal(str(b))
        return a * b

    @staticmethod
    def _a(a, b, sub=False):
        if isinstance(a, Fraction) and isinstance(b, Fraction): return a - b if sub else a + b
        if isinstance(b, Fraction) and b == 0: return a
        if isinstance(a, Fraction) and a == 0 and not sub: return b
        if isinstance(a, Fraction): a = z3.RealVal(str(a))
        if isinstance(b, Fraction): b = z3.RealVal(str(b))
        return a - b if sub else a + b

    def __mul__(a, b): return Rat(Rat._m(a.n, b.n), Rat._m(a.d, b.d))

    def __truediv__(a, b): return Rat(Rat._m(a.n, b.d), Rat._m(a.d, b.n))

    def _addsub(a, b, sub):
        if Rat._same(a.d, b.d): return Rat(Rat._a(a.n, b.n, sub), a.d)
        return Rat(Rat._a(Rat._m(a.n, b.d), Rat._m(b.n, a.d), sub), Rat._m(a.d, b.d))

    @staticmethod
    def _same(x, y):
        if isinstance(x, Fraction) and isinstance(y, Fraction): return x == y
        if isinstance(x, Fraction) or isinstance(y, Fraction): return False
        return x.eq(y)

    def __add__(a, b): return a._addsub(b, False)
    def __sub__(a, b): return a._addsub(b, True)
    def __neg__(a): return Rat(Rat._a(Fraction(0), a.n, True) if not isinstance(a.n, Fraction) else -a.n, a.d)

    def z3num(s): return s.n if not isinstance(s.n, Fraction) else z3.RealVal(str(s.n))
    def z3den(s): return s.d if not isinstance(s.d, Fraction) else z3.RealVal(str(s.d))


class Mag:
    """a magnitude |z| = sqrt(rad) with rad >= 0 (result of cabs / products of such); only compared, multiplied, stored"""
    __slots__ = ('rad',)
    def __init__(s, rad): s.rad = rad


class Ptr:
    __slots__ = ('obj', 'off')
    def __init__(s, obj, off): s.obj = obj; s.off = off
    def __repr__(s): return 'Ptr(%s,%d)' % (s.obj, s.off)


class Fork(Exception):
    def __init__(s, cond): s.cond = cond


class Interp:
    def __init__(s, mod, choices=()):
        s.m = mod
        s.mem = {}            # obj -> {offset: value}
        s.nobj = 0
        s.dens = []           # z3 terms that must be non-zero (every divisor seen)
        s.path = []           # z3 Bool path condition (comparisons on symbolic doubles)
        s.choices = list(choices); s.taken = []
        s.known_sqrt = {}     # id(z3 term of a square) -> Rat root
        s.nonneg = set()
        s.steps = 0
        s.funcs_run = set()

    # ---- memory
    def alloc(s, name=None):
        s.nobj += 1
        k = name or ('o%d' % s.nobj)
        s.mem[k] = {}
        return Ptr(k, 0)

    def store(s, p, v): s.mem[p.obj][p.off] = v

    def load(s, p, t):
        rt = s.m.resolve(t)
        if isinstance(rt, TStruct):
            return tuple(s.load(Ptr(p.obj, p.off + s.m.field_offset(rt, i)), e) for i, e in enumerate(rt.els))
        if isinstance(rt, TArr):
            sz = s.m.sizeof(rt.el)
            return tuple(s.load(Ptr(p.obj, p.off + i * sz), rt.el) for i in range(rt.n))
        try:
            return s.mem[p.obj][p.off]
        except KeyError:
            raise RuntimeError('load of uninitialised %s+%d' % (p.obj, p.off))

    def store_typed(s, p, v, t):
        rt = s.m.resolve(t)
        if isinstance(rt, TStruct):
            for i, e in enumerate(rt.els): s.store_typed(Ptr(p.obj, p.off + s.m.field_offset(rt, i)), v[i], e)
        elif isinstance(rt, TArr):
            sz = s.m.sizeof(rt.el)
            for i in range(rt.n): s.store_typed(Ptr(p.obj, p.off + i * sz), v[i], rt.el)
        else:
            s.store(p, v)

    # ---- symbolic comparison
    def decide(s, cond):
        """cond is a z3 Bool over the inputs; follow the scripted choice, else raise Fork"""
        c = z3.simplify(cond)
        if z3.is_true(c): return True
        if z3.is_false(c): return False
        if s.choices:
            ch = s.choices.pop(0)
        else:
            raise Fork(cond)
        if ch == 'only':          # the other branch was found infeasible by the explorer
            s.taken.append(True); s.path.append(c); return True
        if ch == 'onlynot':
            s.taken.append(False); s.path.append(z3.Not(c)); return False
        s.taken.append(ch)
        s.path.append(c if ch else z3.Not(c))
        return ch

    def fcmp(s, cc, a, b):
        if cc == 'uno': return False
        if cc == 'ord': return True
        if isinstance(a, Mag) or isinstance(b, Mag):
            # |x| cmp |y|  <=>  rad_x cmp rad_y (both non-negative); a non-negative constant c stands for sqrt(c^2)
            def rad(v):
                if isinstance(v, Mag): return v.rad
                if v.isconst() and v.value() >= 0: return v * v
                raise NotImplementedError('comparison of a magnitude with a signed symbolic value')
            return s.fcmp(cc, rad(a), rad(b))
        if a.isconst() and b.isconst():
            x, y = a.value(), b.value()
            return {'oeq': x == y, 'one': x != y, 'une': x != y, 'ueq': x == y, 'ogt': x > y, 'ugt': x > y, 'oge': x >= y,
                    'uge': x >= y, 'olt': x < y, 'ult': x < y, 'ole': x <= y, 'ule': x <= y}[cc]
        # a/b as reals: compare a.n*b.d with b.n*a.d, sign of denominators unknown in general -> use z3 division-free form
        # by requiring the product of denominators positive or negative explicitly: we use the exact quotient semantics of z3.
        lhs = a.z3num() / a.z3den(); rhs = b.z3num() / b.z3den()
        s.need_nonzero(a.d); s.need_nonzero(b.d)
        op = {'oeq': lhs == rhs, 'ueq': lhs == rhs, 'one': lhs != rhs, 'une': lhs != rhs, 'ogt': lhs > rhs, 'ugt': lhs > rhs,
              'oge': lhs >= rhs, 'uge': lhs >= rhs, 'olt': lhs < rhs, 'ult': lhs < rhs, 'ole': lhs <= rhs, 'ule': lhs <= rhs}[cc]
        return s.decide(op)

    def need_nonzero(s, d):
        if isinstance(d, Fraction):
            if d == 0: raise ZeroDivisionError
            return
        s.dens.append(d)

    # ---- operands
    def val(s, v, t, env):
        rt = s.m.resolve(t)
        if isinstance(v, Local): return env[v.name]
        if isinstance(v, CInt):
            n = v.v
            return n & ((1 << rt.n) - 1) if isinstance(rt, TInt) else n
        if isinstance(v, CFP): return Rat.const(v.f)
        if isinstance(v, CNull): return Ptr(None, 0)
        if isinstance(v, (CUndef, CZero)):
            if isinstance(rt, TFloat): return Rat.const(0.0)
            if isinstance(rt, TInt): return 0
            if isinstance(rt, TPtr): return Ptr(None, 0)
            if isinstance(rt, TStruct): return tuple(s.val(v, e, env) for e in rt.els)
            if isinstance(rt, TArr): return tuple(s.val(v, rt.el, env) for _ in range(rt.n))
        if isinstance(v, GlobalRef):
            if v.name in s.m.fn: return v
            return s.global_ptr(v.name)
        if isinstance(v, CExpr):
            if v.op == 'getelementptr':
                return s.gep(v.bt, s.val(v.base, v.pt, env), [(it, s.val(ix, it, env)) for it, ix in v.idx])
            if v.op == 'bitcast': return s.val(v.v, v.ft, env)
        raise NotImplementedError('val %r' % v)

    def global_ptr(s, name):
        k = 'g' + name
        if k not in s.mem:
            g = s.m.gl[name]; s.mem[k] = {}
            if g.init is not None: s.init_global(Ptr(k, 0), g.init, g.ty)
        return Ptr(k, 0)

    def init_global(s, p, v, t):
        rt = s.m.resolve(t)
        if isinstance(v, CAgg):
            if isinstance(rt, TStruct):
                for i, (et, ev) in enumerate(v.els): s.init_global(Ptr(p.obj, p.off + s.m.field_offset(rt, i)), ev, et)
            else:
                sz = s.m.sizeof(rt.el)
                for i, (et, ev) in enumerate(v.els): s.init_global(Ptr(p.obj, p.off + i * sz), ev, et)
        elif isinstance(v, CStr):
            for i, b in enumerate(v.bs): s.store(Ptr(p.obj, p.off + i), b)
        elif isinstance(v, (CZero, CUndef)) and isinstance(rt, (TStruct, TArr)):
            s.store_typed(p, s.val(v, t, {}), t)
        else:
            s.store(p, s.val(v, t, {}))

    def gep(s, bt, base, idx):
        off = base.off; cur = bt; first = True
        for it, ix in idx:
            n = s.m.resolve(it).n
            if ix >= 1 << (n - 1): ix -= 1 << n
            if first:
                off += ix * s.m.sizeof(cur); first = False; continue
            r = s.m.resolve(cur)
            if isinstance(r, TStruct): off += s.m.field_offset(r, ix); cur = r.els[ix]
            else: off += ix * s.m.sizeof(r.el); cur = r.el
        return Ptr(base.obj, off)

    # ---- execution
    def call(s, fname, args):
        if fname in s.m.funcs:
            return s.run(s.m.funcs[fname], args)
        n = fname[1:]
        if n == '__divdc3':
            a, b, c, d = args
            den = c * c + d * d
            s.need_nonzero(den.n); s.need_nonzero(den.d)
            return ((a * c + b * d) / den, (b * c - a * d) / den)
        if n == '__muldc3':
            a, b, c, d = args
            return (a * c - b * d, a * d + b * c)
        if n in ('sqrt', 'llvm.sqrt.f64'):
            x = args[0]
            if x.isconst():
                v = x.value(); r = Fraction(math.isqrt(v.numerator), 1) / Fraction(math.isqrt(v.denominator), 1)
                if r * r == v: return Rat(r, Fraction(1))
                raise NotImplementedError('irrational constant sqrt')
            key = (Rat._k(x.n), Rat._k(x.d))
            if key in s.known_sqrt: return s.known_sqrt[key]
            raise NotImplementedError('sqrt of an expression that is not a declared square')
        if n in ('fabs', 'llvm.fabs.f64'):
            x = args[0]
            if x.isconst(): return Rat(abs(x.n), abs(x.d))
            key = (Rat._k(x.n), Rat._k(x.d))
            if key in s.nonneg: return x
            # fork on the sign
            if s.fcmp('oge', x, Rat.const(0.0)): return x
            return -x
        if n == 'cabs':
            re, im = args
            return Mag(re * re + im * im)
        if n == 'conj': return (args[0], -args[1])
        if n == 'creal': return args[0]
        if n == 'cimag': return args[1]
        if n.startswith('llvm.dbg') or n.startswith('llvm.lifetime') or n.startswith('llvm.stack'): return None
        if n.startswith('llvm.memset'):
            p, v, ln = args[0], args[1], args[2]
            return None
        if n.startswith('llvm.memcpy') or n.startswith('llvm.memmove'):
            d, sp, ln = args[0], args[1], args[2]
            src = dict((o, v) for o, v in s.mem[sp.obj].items() if sp.off <= o < sp.off + ln)
            for o, v in src.items(): s.mem[d.obj][d.off + (o - sp.off)] = v
            return None
        if n == '__assert_fail': raise AssertionError('library assert failed in symbolic run')
        raise NotImplementedError('call ' + fname)

    def run(s, f, args):
        s.funcs_run.add(f.name[1:])
        env = dict(zip(f.pnames, args))
        blk = f.blocks[0]; prev = None
        m = s.m
        while True:
            if blk.phis:
                newv = {}
                for I in blk.phis:
                    for pred, v in I.inc:
                        if pred == prev: newv[I.dst] = s.val(v, I.ty, env); break
                    else: raise RuntimeError('phi without matching predecessor')
                env.update(newv)
            for I in blk.ins:
                s.steps += 1
                op = I.op
                if op == 'alloca':
                    env[I.dst] = s.alloc()
                elif op == 'load':
                    env[I.dst] = s.load(s.val(I.ptr, I.pt, env), I.ty)
                elif op == 'store':
                    s.store_typed(s.val(I.ptr, I.pt, env), s.val(I.val, I.ty, env), I.ty)
                elif op == 'getelementptr':
                    env[I.dst] = s.gep(I.bt, s.val(I.base, I.pt, env), [(it, s.val(ix, it, env)) for it, ix in I.idx])
                elif op in ('fadd', 'fsub', 'fmul', 'fdiv'):
                    a = s.val(I.a, I.ty, env); b = s.val(I.b, I.ty, env)
                    if isinstance(a, Mag) or isinstance(b, Mag):
                        if op not in ('fmul', 'fdiv'): raise NotImplementedError('%s on a magnitude' % op)
                        for o_ in (a, b):
                            if not isinstance(o_, Mag) and not (o_.isconst() and o_.value() >= 0):
                                raise NotImplementedError('magnitude combined with a signed symbolic value')
                        ra = a.rad if isinstance(a, Mag) else a * a
                        rb = b.rad if isinstance(b, Mag) else b * b
                        if op == 'fdiv':
                            s.need_nonzero(rb.n); env[I.dst] = Mag(ra / rb)
                        else:
                            env[I.dst] = Mag(ra * rb)
                        continue
                    if op == 'fadd': r = a + b
                    elif op == 'fsub': r = a - b
                    elif op == 'fmul': r = a * b
                    else:
                        s.need_nonzero(b.n); r = a / b
                    env[I.dst] = r
                elif op == 'fneg':
                    env[I.dst] = -s.val(I.a, I.ty, env)
                elif op in ('add', 'sub', 'mul', 'and', 'or', 'xor', 'shl', 'lshr', 'ashr', 'sdiv', 'srem', 'udiv', 'urem'):
                    n = m.resolve(I.ty).n; a = s.val(I.a, I.ty, env); b = s.val(I.b, I.ty, env); mask = (1 << n) - 1
                    sg = lambda x: x - (1 << n) if x >> (n - 1) else x
                    if op == 'add': r = a + b
                    elif op == 'sub': r = a - b
                    elif op == 'mul': r = a * b
                    elif op == 'and': r = a & b
                    elif op == 'or': r = a | b
                    elif op == 'xor': r = a ^ b
                    elif op == 'shl': r = a << b
                    elif op == 'lshr': r = a >> b
                    elif op == 'ashr': r = sg(a) >> b
                    elif op == 'sdiv': r = int(sg(a) / sg(b))
                    elif op == 'srem': r = sg(a) - sg(b) * int(sg(a) / sg(b))
                    elif op == 'udiv': r = a // b
                    else: r = a % b
                    env[I.dst] = r & mask
                elif op == 'icmp':
                    a = s.val(I.a, I.ty, env); b = s.val(I.b, I.ty, env)
                    if isinstance(a, Ptr) or isinstance(b, Ptr):
                        eq = (a.obj, a.off) == (b.obj, b.off)
                        env[I.dst] = int(eq if I.cc == 'eq' else not eq)
                    else:
                        n = m.resolve(I.ty).n
                        sg = lambda x: x - (1 << n) if x >> (n - 1) else x
                        if I.cc[0] == 's': a, b = sg(a), sg(b)
                        env[I.dst] = int({'eq': a == b, 'ne': a != b, 'gt': a > b, 'ge': a >= b, 'lt': a < b, 'le': a <= b}[I.cc[-2:] if I.cc not in ('eq', 'ne') else I.cc])
                elif op == 'fcmp':
                    env[I.dst] = int(s.fcmp(I.cc, s.val(I.a, I.ty, env), s.val(I.b, I.ty, env)))
                elif op in ('zext', 'trunc', 'sext', 'bitcast', 'ptrtoint', 'inttoptr', 'fpext', 'fptrunc'):
                    v = s.val(I.v, I.ft, env)
                    if op == 'sext':
                        n = m.resolve(I.ft).n
                        if v >> (n - 1): v -= 1 << n
                        v &= (1 << m.resolve(I.tt).n) - 1
                    elif op == 'trunc': v &= (1 << m.resolve(I.tt).n) - 1
                    env[I.dst] = v
                elif op in ('sitofp', 'uitofp'):
                    v = s.val(I.v, I.ft, env); n = m.resolve(I.ft).n
                    if op == 'sitofp' and v >> (n - 1): v -= 1 << n
                    env[I.dst] = Rat.const(Fraction(v))
                elif op == 'select':
                    c = s.val(I.c, TInt(1), env)
                    env[I.dst] = s.val(I.a, I.ty, env) if c else s.val(I.b, I.ty, env)
                elif op == 'extractvalue':
                    v = s.val(I.a, I.ty, env)
                    for i in I.path: v = v[i]
                    env[I.dst] = v
                elif op == 'insertvalue':
                    agg = s.val(I.a, I.ty, env); v = s.val(I.v, I.vt, env)
                    def ins(a, path):
                        if not path: return v
                        l = list(a); l[path[0]] = ins(a[path[0]], path[1:]); return tuple(l)
                    env[I.dst] = ins(agg, I.path)
                elif op == 'call':
                    args2 = [s.val(v, t, env) for t, v in I.args]
                    callee = I.callee.name if isinstance(I.callee, GlobalRef) else env[I.callee.name].name
                    r = s.call(callee, args2)
                    if I.dst: env[I.dst] = r
                elif op == 'freeze':
                    env[I.dst] = s.val(I.a, I.ty, env)
                else:
                    raise NotImplementedError('irsym opcode ' + op)
            T = blk.term
            if T.op == 'ret':
                return None if T.v is None else s.val(T.v, T.ty, env)
            if T.op == 'br':
                nxt = T.a if T.c is None or s.val(T.c, TInt(1), env) else T.b
            elif T.op == 'switch':
                v = s.val(T.v, T.ty, env); nxt = T.dflt
                n = m.resolve(T.ty).n
                for cv, lb in T.cases:
                    if (cv & ((1 << n) - 1)) == v: nxt = lb; break
            else:
                raise RuntimeError('unreachable reached')
            prev = blk.label; blk = f.bmap[nxt]


def _k(x):
    return x if isinstance(x, Fraction) else x.get_id()
Rat._k = staticmethod(_k)


def explore(mod, setup, max_paths=64, feas=()):
    """run setup(interp) -> result for every combination of symbolic comparison outcomes; yields (interp, result)"""
    todo = [[]]; n = 0
    while todo:
        ch = todo.pop()
        it = Interp(mod, ch)
        try:
            res = setup(it)
        except Fork as fk:
            # prune branches whose path condition is infeasible (cheap z3 query, 2 s cap; unknown = keep)
            alts = []
            for b in (True, False):
                sol = z3.Solver(); sol.set('timeout', 2000)
                for d in it.dens: sol.add(d != 0)
                for p in it.path: sol.add(p)
                for e in feas: sol.add(e)
                sol.add(fk.cond if b else z3.Not(fk.cond))
                if sol.check() != z3.unsat: alts.append(b)
            for b in alts: todo.append(ch + [b])
            continue
        n += 1
        if n > max_paths: raise RuntimeError('too many paths')
        yield it, res


def check_zero(it, exprs, extra=(), timeout_ms=60000):
    """z3: is there an input (denominators non-zero, path condition, extra assumptions) where some expr in exprs is non-zero?
    exprs: list of Rat.  Returns ('unsat', None) | ('sat', model) | ('unknown', reason)"""
    sol = z3.Solver(); sol.set('timeout', timeout_ms)
    for d in it.dens: sol.add(d != 0)
    for p in it.path: sol.add(p)
    for e in extra: sol.add(e)
    ors = []
    for e in exprs:
        if e.isconst():
            if e.value() != 0: ors.append(z3.BoolVal(True))
            continue
        if not isinstance(e.d, Fraction): sol.add(e.d != 0)
        if isinstance(e.n, Fraction):
            if e.n != 0: ors.append(z3.BoolVal(True))
            continue
        ors.append(e.n != 0)
    if not ors: return 'unsat', None
    sol.add(z3.Or(ors))
    r = sol.check()
    if r == z3.unsat: return 'unsat', None
    if r == z3.sat: return 'sat', sol.model()
    return 'unknown', sol.reason_unknown()
