#!/bin/bash
# usage: verify_seed.sh <seed-src-dir> <seed-id> : confirm a candidate change in a scratch worktree, then keep it under /verif/seeded/<id>
# (applies; suite passes with it; demo fails with it and passes without it)
src=$1; id=$2; wt=/tmp/wt_verify_$$
/tmp/mkwt.sh $wt >/dev/null 2>&1 || { git -C /repo worktree add -q $wt HEAD && rsync -a --exclude .git --exclude '*.o' --exclude '*.lo' --exclude '*.la' --exclude '.libs' --exclude '*.a' /repo/ $wt/; }
cd $wt
res="{}"
if ! git apply --check $src/patch.diff 2>/dev/null; then echo "$id: patch does not apply"; git -C /repo worktree remove --force $wt; exit 1; fi
git apply $src/patch.diff
suite=$(make -j16 check 2>&1 | grep -E "^# (PASS|FAIL|ERROR):" | tr -d ' \n')
origwt=$(grep -o '/tmp/wt_C[0-9]*' $src/demo.c | head -1)
san=""; grep -q "fsanitize=address" $src/demo.c && san="-fsanitize=address,undefined"
grep -q "fsanitize-recover=address" $src/demo.c && san="$san -fsanitize-recover=address"
wrap=$(grep -o -m1 -- "-Wl,--wrap=[A-Za-z0-9_,=-]*" $src/demo.c | head -1)
cmd="gcc -g $san -I$wt/src -I$wt demo.c $wt/src/.libs/libvna.a -lyaml -lm $wrap -o demo && ./demo"
mkdir -p $wt/_d $wt/_seed/$(basename $src) && cp -r $src/* $wt/_d/ 2>/dev/null; cp -r $src/* $wt/_seed/$(basename $src)/ 2>/dev/null; cd $wt/_d
sed -i "s#$origwt#$wt#g" demo.c
( eval "$cmd" ) >with.log 2>&1; rc_with=$?
cd $wt && git checkout -- src && make -j16 >/dev/null 2>&1
cd $wt/_d && ( eval "$cmd" ) >without.log 2>&1; rc_without=$?
echo "$id: suite[$suite] demo_with_patch_rc=$rc_with demo_without_rc=$rc_without"
if [[ "$suite" == *"PASS:25"*"FAIL:0"* && $rc_with -ne 0 && $rc_without -eq 0 ]]; then
  mkdir -p /verif/seeded/$id && cp $src/patch.diff $src/demo.c $src/meta.json /verif/seeded/$id/; for f in $src/*; do case $f in *.vnacal|*.s2p|*.npd|*.sh|*.txt|*.h) cp $f /verif/seeded/$id/;; esac; done
  python3 - <<PY
import json
p='/verif/seeded/$id/meta.json'; m=json.load(open(p))
m['confirmed_by_me']={'suite':'$suite','demo_rc_with_patch':$rc_with,'demo_rc_without_patch':$rc_without,'how':'tools/verify_seed.sh in a scratch worktree of /repo HEAD','demo_cmd':'''$cmd'''}
json.dump(m,open(p,'w'),indent=1)
PY
  echo "$id: KEPT"
else
  echo "$id: REJECTED"; tail -n 3 with.log; tail -n 3 without.log
fi
cd /; git -C /repo worktree remove --force $wt
