#!/bin/bash
# usage: seedrun.sh <seed-id> <property> [--tier t] : apply a kept seeded change to /repo, run one property's check, undo it straight afterwards
id=$1; prop=$2; shift 2
cd /verif
cp evidence/$prop.json /tmp/ev_$prop.$$ 2>/dev/null
git -C /repo apply /verif/seeded/$id/patch.diff || exit 3
out=$(python3-vt ./check $prop "$@" 2>&1); rc=$?
git -C /repo checkout -- .
echo "$out" | grep -E "^VIOLATION|^KNOWN|quick:|thorough:" | sed 's/replay=.*//' | sort | uniq -c | tail -n 4
echo "SEED $id vs $prop: exit=$rc"
rm -rf /verif/evidence/replay/${prop}_*
[ -f /tmp/ev_$prop.$$ ] && mv /tmp/ev_$prop.$$ evidence/$prop.json
exit 0
