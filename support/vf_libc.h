/*
 * vf_libc.h -- small deterministic libc models for the solver build (CBMC native front end).  Under VF_NATIVE the
 * real libc is used.  All are part of the claim:
 *   ctype:      C-locale ASCII semantics (the library is compiled with -D__NO_CTYPE so these are real calls)
 *   strdup:     copies into a fresh buffer of fixed capacity VF_STRCAP (string lengths are bounded by the harness;
 *               a symbolic-size heap object would make CBMC fall back to byte-level reasoning that does not finish)
 *   vasprintf:  the harness only passes complete descriptors as the format (no conversions): verbatim copy into a
 *               fresh buffer of VF_STRCAP bytes
 *   strtol:     decimal digits only (what the descriptor scanner hands it)
 */
#ifndef VF_LIBC_H
#define VF_LIBC_H
#ifndef VF_NATIVE
#include <stdarg.h>
#include <stdlib.h>
#include <string.h>
#include "vf.h"

#ifndef VF_STRCAP
#define VF_STRCAP 12
#endif

int isascii(int c) { return (c & ~0x7f) == 0; }
int isdigit(int c) { return c >= '0' && c <= '9'; }
int isalpha(int c) { return (c >= 'a' && c <= 'z') || (c >= 'A' && c <= 'Z'); }
int isalnum(int c) { return isalpha(c) || isdigit(c); }
int isspace(int c) { return c == ' ' || (c >= '\t' && c <= '\r'); }
int isupper(int c) { return c >= 'A' && c <= 'Z'; }
int islower(int c) { return c >= 'a' && c <= 'z'; }
int isprint(int c) { return c >= 0x20 && c <= 0x7e; }
int iscntrl(int c) { return (c >= 0 && c < 0x20) || c == 0x7f; }
int toupper(int c) { return islower(c) ? c - 'a' + 'A' : c; }
int tolower(int c) { return isupper(c) ? c - 'A' + 'a' : c; }

/* Fixed-size copies: no control flow depends on where the (possibly symbolic) terminator is.  Source buffers handed to
 * these stubs are at least 2*VF_STRCAP bytes (harness descriptors and the vasprintf buffer itself) or are themselves
 * strdup results read from offset 0. */
char *strdup(const char *s)
{
    char *p = malloc(VF_STRCAP);
    VF_ASSUME(p != NULL);
    for (int i = 0; i < VF_STRCAP - 1; ++i)
	p[i] = s[i];
    p[VF_STRCAP - 1] = '\000';
    return p;
}

#ifndef VF_NO_VASPRINTF
int vasprintf(char **strp, const char *fmt, va_list ap)
{
    char *p = malloc(2 * VF_STRCAP);
    VF_ASSUME(p != NULL);
    for (int i = 0; i < VF_STRCAP - 1; ++i)
	p[i] = fmt[i];
    for (int i = VF_STRCAP - 1; i < 2 * VF_STRCAP; ++i)
	p[i] = '\000';
    *strp = p;
    return 0;
}
#endif

long strtol(const char *s, char **end, int base)
{
    long v = 0;
    int i = 0;
    while (i < VF_STRCAP && s[i] >= '0' && s[i] <= '9') {
	v = v * 10 + (s[i] - '0');
	++i;
    }
    if (end != NULL)
	*end = (char *)s + i;
    return v;
}
#endif /* !VF_NATIVE */
#endif /* VF_LIBC_H */
