/*
 * vf_cmath.c -- bodies for the compiler-support routines clang calls on the slow path of complex arithmetic, and for
 * cabs.  Linked (as LLVM IR) into every ll2c build so that CBMC sees real code instead of a body-less function.
 * __muldc3 / __divdc3 follow C11 Annex G (the same algorithm as compiler-rt / libgcc); cabs is sqrt(re^2 + im^2)
 * without the overflow-avoiding scaling of glibc's hypot (stated in the evidence where a claim depends on it).
 */
#include <math.h>

typedef struct { double re, im; } vf_cx;

static double vf_copysign(double x, double y) { return __builtin_copysign(x, y); }
static int vf_isinf(double x) { return x == __builtin_inf() || x == -__builtin_inf(); }
static int vf_isnan(double x) { return x != x; }

double _Complex __muldc3(double a, double b, double c, double d)
{
    double ac = a * c, bd = b * d, ad = a * d, bc = b * c;
    double re = ac - bd, im = ad + bc;
    if (vf_isnan(re) && vf_isnan(im)) {
	int recalc = 0;
	if (vf_isinf(a) || vf_isinf(b)) {
	    a = vf_copysign(vf_isinf(a) ? 1.0 : 0.0, a);
	    b = vf_copysign(vf_isinf(b) ? 1.0 : 0.0, b);
	    if (vf_isnan(c)) c = vf_copysign(0.0, c);
	    if (vf_isnan(d)) d = vf_copysign(0.0, d);
	    recalc = 1;
	}
	if (vf_isinf(c) || vf_isinf(d)) {
	    c = vf_copysign(vf_isinf(c) ? 1.0 : 0.0, c);
	    d = vf_copysign(vf_isinf(d) ? 1.0 : 0.0, d);
	    if (vf_isnan(a)) a = vf_copysign(0.0, a);
	    if (vf_isnan(b)) b = vf_copysign(0.0, b);
	    recalc = 1;
	}
	if (!recalc && (vf_isinf(ac) || vf_isinf(bd) || vf_isinf(ad) || vf_isinf(bc))) {
	    if (vf_isnan(a)) a = vf_copysign(0.0, a);
	    if (vf_isnan(b)) b = vf_copysign(0.0, b);
	    if (vf_isnan(c)) c = vf_copysign(0.0, c);
	    if (vf_isnan(d)) d = vf_copysign(0.0, d);
	    recalc = 1;
	}
	if (recalc) {
	    re = __builtin_inf() * (a * c - b * d);
	    im = __builtin_inf() * (a * d + b * c);
	}
    }
    double _Complex z;
    ((double *)&z)[0] = re;
    ((double *)&z)[1] = im;
    return z;
}

double _Complex __divdc3(double a, double b, double c, double d)
{
    /* textbook quotient (no exponent scaling); NaN recovery as in Annex G */
    double denom = c * c + d * d;
    double re = (a * c + b * d) / denom, im = (b * c - a * d) / denom;
    if (vf_isnan(re) && vf_isnan(im)) {
	if (denom == 0.0 && (!vf_isnan(a) || !vf_isnan(b))) {
	    re = vf_copysign(__builtin_inf(), c) * a;
	    im = vf_copysign(__builtin_inf(), c) * b;
	} else if ((vf_isinf(a) || vf_isinf(b)) && !vf_isinf(c) && !vf_isnan(c) && !vf_isinf(d) && !vf_isnan(d)) {
	    a = vf_copysign(vf_isinf(a) ? 1.0 : 0.0, a);
	    b = vf_copysign(vf_isinf(b) ? 1.0 : 0.0, b);
	    re = __builtin_inf() * (a * c + b * d);
	    im = __builtin_inf() * (b * c - a * d);
	} else if ((vf_isinf(c) || vf_isinf(d)) && !vf_isinf(a) && !vf_isnan(a) && !vf_isinf(b) && !vf_isnan(b)) {
	    c = vf_copysign(vf_isinf(c) ? 1.0 : 0.0, c);
	    d = vf_copysign(vf_isinf(d) ? 1.0 : 0.0, d);
	    re = 0.0 * (a * c + b * d);
	    im = 0.0 * (b * c - a * d);
	}
    }
    double _Complex z;
    ((double *)&z)[0] = re;
    ((double *)&z)[1] = im;
    return z;
}

double cabs(double _Complex z)
{
    double re = ((double *)&z)[0], im = ((double *)&z)[1];
    return sqrt(re * re + im * im);
}
