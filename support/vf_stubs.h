/*
 * vf_stubs.h -- environment stubs used by harnesses (each is part of the claim; the evidence lists them).
 * Select with #define VF_STUB_xxx before including.  Under VF_NATIVE (replay) the real libc is used unless
 * the stub's behaviour is an *input* of the counterexample (then the native twin reads the same tape slots).
 */
#ifndef VF_STUBS_H
#define VF_STUBS_H
#include <stdarg.h>
#include <stdlib.h>
#include <string.h>
#include <errno.h>
#include "vf.h"

#if defined(VF_STUB_VASPRINTF) && !defined(VF_NATIVE)
/* vasprintf: returns a fresh 3-byte NUL-terminated string (text is irrelevant to the harness), never fails */
int vasprintf(char **strp, const char *fmt, va_list ap)
{
    char *p = malloc(4);
    VF_ASSUME(p != NULL);
    p[0] = 'm'; p[1] = 's'; p[2] = 'g'; p[3] = '\000';
    *strp = p;
    return 3;
}
#endif

#ifdef VF_STUB_ERRFN
/* error callback: counts invocations, remembers the last category */
static int vf_err_count;
static int vf_err_category = -1;
static void vf_error_fn(const char *message, void *arg, vnaerr_category_t category)
{
    VF_ASSERT(message != NULL, "C11: error callback receives a message");
    ++vf_err_count;
    vf_err_category = (int)category;
}
#endif

#endif /* VF_STUBS_H */
