/* native replay runtime: feeds VF_L/VF_D from a tape file ($VF_TAPE), reports assertion outcomes */
#include <stdio.h>
#include <stdlib.h>
#include <string.h>
#include <stdint.h>
#include <unistd.h>
#include "vf.h"

static long tape_l[VF_TAPE_L];
static double tape_d[VF_TAPE_D];
static int loaded;

static void load(void)
{
    const char *fn = getenv("VF_TAPE");
    loaded = 1;
    if (fn == NULL)
	return;
    FILE *fp = fopen(fn, "r");
    if (fp == NULL)
	return;
    char kind;
    int slot;
    char val[128];
    while (fscanf(fp, " %c %d %127s", &kind, &slot, val) == 3) {
	if (kind == 'l' && slot >= 0 && slot < VF_TAPE_L)
	    tape_l[slot] = strtol(val, NULL, 0);
	else if (kind == 'd' && slot >= 0 && slot < VF_TAPE_D) {
	    uint64_t bits = strtoull(val, NULL, 16);
	    memcpy(&tape_d[slot], &bits, 8);
	}
    }
    fclose(fp);
}

long vf_native_l(int slot)
{
    if (!loaded)
	load();
    return (slot >= 0 && slot < VF_TAPE_L) ? tape_l[slot] : 0;
}

double vf_native_d(int slot)
{
    if (!loaded)
	load();
    return (slot >= 0 && slot < VF_TAPE_D) ? tape_d[slot] : 0.0;
}

void vf_native_assume(int c, const char *text)
{
    if (!c) {
	fprintf(stderr, "VF-ASSUME-FALSE: %s\n", text);
	fflush(NULL);
	_exit(43);
    }
}

void vf_native_assert(int c, const char *msg)
{
    if (!c) {
	fprintf(stderr, "VF-ASSERT-FAIL: %s\n", msg);
	fflush(NULL);
	_exit(42);
    }
}

void vf_native_reach(const char *label)
{
    fprintf(stderr, "VF-REACHED: %s\n", label);
}

/* allocation-fault injection in the native replay: the harness's vf_alloc_hook() (if it defines one) decides, exactly as in the solver build */
extern int vf_alloc_hook(void) __attribute__((weak));
void *__real_malloc(size_t);
void *__real_calloc(size_t, size_t);
void *__real_realloc(void *, size_t);
void *__wrap_malloc(size_t n) { if (vf_alloc_hook && vf_alloc_hook()) return NULL; return __real_malloc(n); }
void *__wrap_calloc(size_t a, size_t b) { if (vf_alloc_hook && vf_alloc_hook()) return NULL; return __real_calloc(a, b); }
void *__wrap_realloc(void *p, size_t n) { if (vf_alloc_hook && vf_alloc_hook()) return NULL; return __real_realloc(p, n); }

extern void harness(void);

int main(void)
{
    alarm(20);
    harness();
    fprintf(stderr, "VF-DONE\n");
    return 0;
}
