/*
 * vf.h -- harness conventions shared by the solver build (CBMC, either front end) and the
 * native replay build (gcc + ASan/UBSan against the unmodified library sources).
 *
 *   VF_L(slot) / VF_D(slot)   symbolic input of integer / double kind.  Every input site has an
 *                             explicit constant slot so that the counterexample's inputs can be
 *                             read back from the trace (assignments to vf_tape_l[]/vf_tape_d[])
 *                             and fed to the same harness natively.
 *   VF_ASSUME(c)              precondition (placed before the code it constrains)
 *   VF_ASSERT(c, "Cxx.k: ..") the property
 *   VF_REACH("label")         vacuity witness: an assertion that MUST be reported violated by
 *                             the solver (the runner treats a passing witness as a broken check)
 */
#ifndef VF_H
#define VF_H
#include <stddef.h>

#define VF_TAPE_L 96
#define VF_TAPE_D 48

#ifdef VF_NATIVE
long vf_native_l(int slot);
double vf_native_d(int slot);
void vf_native_assume(int c, const char *text);
void vf_native_assert(int c, const char *msg);
void vf_native_reach(const char *label);
#define VF_L(slot)        vf_native_l(slot)
#define VF_D(slot)        vf_native_d(slot)
#define VF_ASSUME(c)      vf_native_assume(!!(c), #c)
#define VF_ASSERT(c, msg) vf_native_assert(!!(c), msg)
#define VF_REACH(label)   vf_native_reach(label)
#else
extern long nondet_long(void);
extern double nondet_double(void);
extern void __CPROVER_assume(_Bool);
extern void __CPROVER_assert(_Bool, const char *);
#ifdef VF_LROUTE
extern unsigned long __CPROVER_OBJECT_SIZE(const void *);	/* CBMC builtin; declared for clang only */
#endif
long vf_tape_l[VF_TAPE_L];
double vf_tape_d[VF_TAPE_D];
#define VF_L(slot)        (vf_tape_l[slot] = nondet_long())
#define VF_D(slot)        (vf_tape_d[slot] = nondet_double())
#define VF_ASSUME(c)      __CPROVER_assume(!!(c))
#define VF_ASSERT(c, msg) __CPROVER_assert(!!(c), msg)
#define VF_REACH(label)   __CPROVER_assert(0, "VF-WITNESS " label)
#endif

/* integer input in [lo, hi] */
#define VF_RANGE(var, slot, lo, hi) do { (var) = VF_L(slot); VF_ASSUME((var) >= (lo) && (var) <= (hi)); } while (0)

#endif /* VF_H */
