/*
 * C09.a/b  The Touchstone loader is total on short inputs: for EVERY byte string of length NBYTES (then EOF) it terminates
 *          (unwinding assertions), touches only memory it owns, and either fails with -1 and errno in {EBADMSG, ENOPROTOOPT,
 *          EINVAL(usage), system} or succeeds with an object whose dimensions fit its type; nothing leaks after vnadata_free.
 *          PREFIX (optional, concrete) is placed before the symbolic bytes so that deeper parser states are reached with few
 *          symbolic bytes.  getc = next byte of the buffer, then EOF for ever; strtod / strtol = grammar prefix, arbitrary value.
 */
#include <complex.h>
#include <errno.h>
#include <stdarg.h>
#include <stdio.h>
#include <stdlib.h>
#include <string.h>
#include "vf.h"
#define VF_NO_VASPRINTF
#ifndef C08
#define harness_c09 harness
#else
#define harness_c08 harness
#endif
#define VF_STRCAP 16
#include "vf_libc.h"
#include "vnaerr.h"
#define VF_STUB_VASPRINTF
#define VF_STUB_ERRFN
#include "vf_stubs.h"
#include "vnadata_internal.h"

#ifndef NBYTES
#define NBYTES 2
#endif
#ifndef PREFIX
#define PREFIX ""
#endif

#ifdef C08
static unsigned char vf_input[sizeof(PREFIX) + NBYTES + 64];
#else
static unsigned char vf_input[sizeof(PREFIX) + NBYTES];	/* exact size: reads at a symbolic position stay cheap */
#endif
static int vf_len, vf_pos;
#ifdef VF_NATIVE
#define VF_GETC vf_getc
static int vf_getc(FILE *fp) { if (vf_pos >= vf_len) return EOF; return vf_input[vf_pos++]; }
/* the native replay goes through the real stdio: the bytes are written to a temporary file */
#else
int getc(FILE *fp) { if (vf_pos >= vf_len) return EOF; return vf_input[vf_pos++]; }
int fgetc(FILE *fp) { return getc(fp); }
double strtod(const char *s, char **end)
{
    int i = 0;
    while (i < VF_STRCAP && (isdigit((unsigned char)s[i]) || s[i] == '+' || s[i] == '-' || s[i] == '.' || s[i] == 'E' || s[i] == 'e')) ++i;
    if (end != NULL) *end = (char *)s + i;
    double d = VF_D(40);
    return d;
}
#endif

extern int _vnadata_load_touchstone(vnadata_internal_t *vdip, FILE *fp, const char *filename);

#ifndef SUFFIX
#define SUFFIX ""
#endif
#ifndef MODE
#define MODE 0		/* 0: letter case of the symbolic byte; 1: '!' comment + symbolic byte + newline versus a bare newline; 2: blank versus tab/CR/two blanks */
#endif
struct result { int rc, type, rows, cols, freqs; double f0; double re0; double z0; };

static void load_one(const unsigned char *text, int len, struct result *rp)
{
    vnadata_t *vdp = vnadata_alloc(vf_error_fn, NULL);
    VF_ASSUME(vdp != NULL);
    for (int i = 0; i < len; ++i) vf_input[i] = text[i];
    vf_len = len; vf_pos = 0;
    FILE *fp;
#ifdef VF_NATIVE
    fp = tmpfile(); fwrite(vf_input, 1, vf_len, fp); rewind(fp);
#else
    static int dummy;
    fp = (FILE *)&dummy;
#endif
    rp->rc = _vnadata_load_touchstone(VDP_TO_VDIP(vdp), fp, "x.s2p");
    rp->type = vnadata_get_type(vdp); rp->rows = vnadata_get_rows(vdp); rp->cols = vnadata_get_columns(vdp);
    rp->freqs = vnadata_get_frequencies(vdp);
    rp->f0 = rp->freqs > 0 && rp->rc == 0 ? vnadata_get_frequency(vdp, 0) : 0.0;
    rp->z0 = rp->rows > 0 && rp->rc == 0 ? creal(vnadata_get_fz0(vdp, 0, 0)) : 0.0;
    vnadata_free(vdp);
#ifdef VF_NATIVE
    fclose(fp);
#endif
}

void harness_c08(void)
{
    unsigned char a[sizeof(PREFIX) + sizeof(SUFFIX) + 8], b[sizeof(PREFIX) + sizeof(SUFFIX) + 8];
    const char *pre = PREFIX, *suf = SUFFIX;
    int na = 0, nb = 0;
    for (int i = 0; pre[i] != '\000'; ++i) { a[na++] = (unsigned char)pre[i]; b[nb++] = (unsigned char)pre[i]; }
    long x;
    VF_RANGE(x, 0, 0, 255);
    if (MODE == 0) {
	VF_ASSUME(x >= 'a' && x <= 'z');
	a[na++] = (unsigned char)x; b[nb++] = (unsigned char)(x - 'a' + 'A');
    } else if (MODE == 1) {
	VF_ASSUME(x != '\n');
	a[na++] = '!'; a[na++] = (unsigned char)x; a[na++] = '\n';
	b[nb++] = '\n';
    } else {
	VF_ASSUME(x == '\t' || x == '\r' || x == ' ');
	a[na++] = ' '; a[na++] = (unsigned char)x;
	b[nb++] = ' ';
    }
    for (int i = 0; suf[i] != '\000'; ++i) { a[na++] = (unsigned char)suf[i]; b[nb++] = (unsigned char)suf[i]; }
    struct result ra, rb;
    load_one(a, na, &ra);
    load_one(b, nb, &rb);
    VF_ASSERT(ra.rc == rb.rc, "C08.a: two spellings that differ only in letter case / a comment / spacing are both accepted or both rejected");
    if (ra.rc == 0 && rb.rc == 0) {
	VF_ASSERT(ra.type == rb.type && ra.rows == rb.rows && ra.cols == rb.cols && ra.freqs == rb.freqs,
		"C08.a: equivalent spellings load to the same type and dimensions");
	VF_ASSERT(ra.z0 == rb.z0, "C08.a: equivalent spellings load to the same reference impedance");
	VF_REACH("both accepted");
    }
    VF_REACH("end");
}

void harness_c09(void)
{
    vnadata_t *vdp = vnadata_alloc(vf_error_fn, NULL);
    VF_ASSUME(vdp != NULL);
    const char *pre = PREFIX;
    int n = 0;
    for (; pre[n] != '\000'; ++n) vf_input[n] = (unsigned char)pre[n];
    for (int i = 0; i < NBYTES; ++i) {
	long b;
	VF_RANGE(b, i, 0, 255);
	vf_input[n++] = (unsigned char)b;
    }
    vf_len = n;
    FILE *fp;
#ifdef VF_NATIVE
    fp = tmpfile();
    fwrite(vf_input, 1, vf_len, fp);
    rewind(fp);
#else
    static int dummy;
    fp = (FILE *)&dummy;
#endif
    errno = 0;
    int rc = _vnadata_load_touchstone(VDP_TO_VDIP(vdp), fp, "x.s2p");
    VF_ASSERT(rc == 0 || rc == -1, "C09: the loader returns 0 or -1");
    if (rc == -1) {
	VF_ASSERT(errno == EBADMSG || errno == ENOPROTOOPT || errno == EINVAL || errno == ENOMEM || errno == ERANGE,
		"C09: a rejected file sets errno to EBADMSG / ENOPROTOOPT / a usage or system error");
	VF_ASSERT(vf_err_count >= 1, "C11: a rejected file is reported through the error function");
	VF_REACH("rejected");
    } else {
	int t = vnadata_get_type(vdp), r = vnadata_get_rows(vdp), c = vnadata_get_columns(vdp);
	VF_ASSERT(t == VPT_UNDEF || t == VPT_S || t == VPT_Z || t == VPT_Y || t == VPT_H || t == VPT_G, "C09: an accepted Touchstone file has one of the Touchstone parameter types (or is empty)");
	VF_ASSERT(r == c && r >= 0 && ((t != VPT_H && t != VPT_G) || r == 2), "C09: an accepted object has dimensions that fit its parameter type");
	VF_ASSERT(vnadata_get_frequencies(vdp) >= 0, "C09: frequency count is sane");
    }
    vnadata_free(vdp);
#ifdef VF_NATIVE
    fclose(fp);
#endif
    VF_REACH("end");
}
