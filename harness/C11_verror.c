/*
 * C11.a  _vnaerr_verror: category -> errno mapping and exactly one callback.
 *        Symbolic: category (-2..9), incoming errno (for system errors), callback present or NULL, vasprintf fails or not.
 * Oracle: the table in vnaerr(3): SYSTEM keeps the system errno, USAGE EINVAL, VERSION ENOPROTOOPT, SYNTAX EBADMSG,
 *         WARNING 0, MATH EDOM, INTERNAL / anything else ENOSYS.
 */
#include <errno.h>
#include <stdarg.h>
#include <stdlib.h>
#include <string.h>
#include "vf.h"
#include "vnaerr_internal.h"

static int vf_fail_asprintf;
#ifndef VF_NATIVE
int vasprintf(char **strp, const char *fmt, va_list ap)
{
    if (vf_fail_asprintf) { errno = ENOMEM; return -1; }
    char *p = malloc(4);
    VF_ASSUME(p != NULL);
    p[0] = 'm'; p[1] = 's'; p[2] = 'g'; p[3] = '\000';
    *strp = p;
    return 3;
}
#endif

static int calls, last_cat, errno_in_cb;
static const char *last_msg;
static void cb(const char *message, void *arg, vnaerr_category_t category)
{
    VF_ASSERT(message != NULL, "C11.a: the callback receives a message valid during the call");
    VF_ASSERT(arg == (void *)&calls, "C11.a: the callback receives the user's argument");
    ++calls; last_cat = (int)category; errno_in_cb = errno;
    errno = 77;		/* a user callback may well disturb errno (logging, I/O): the documented value must survive */
}

static void report(vnaerr_error_fn_t *fn, void *arg, vnaerr_category_t c, const char *fmt, ...)
{
    va_list ap;
    va_start(ap, fmt);
    _vnaerr_verror(fn, arg, c, fmt, ap);
    va_end(ap);
}

void harness(void)
{
    long cat, e_in, have_cb, fail;
    VF_RANGE(cat, 0, -2, 9);
    VF_RANGE(e_in, 1, 1, 120);
    VF_RANGE(have_cb, 2, 0, 1);
    VF_RANGE(fail, 3, 0, 1);
#ifdef VF_NATIVE
    fail = 0;
#endif
    vf_fail_asprintf = (int)fail;
    errno = (int)e_in;
    report(have_cb ? cb : NULL, &calls, (vnaerr_category_t)cat, "x");
    int exp;
    switch (cat) {
    case VNAERR_SYSTEM:  exp = (int)e_in; break;
    case VNAERR_USAGE:   exp = EINVAL; break;
    case VNAERR_VERSION: exp = ENOPROTOOPT; break;
    case VNAERR_SYNTAX:  exp = EBADMSG; break;
    case VNAERR_WARNING: exp = 0; break;
    case VNAERR_MATH:    exp = EDOM; break;
    default:             exp = ENOSYS; break;
    }
    VF_ASSERT(errno == exp, "C11.a: errno on return is the documented value for the category (system errno preserved for VNAERR_SYSTEM even if vasprintf fails)");
    VF_ASSERT(calls == (have_cb ? 1 : 0), "C11.a: the error function is called exactly once when given, never when NULL");
    if (have_cb) {
	VF_ASSERT(last_cat == (int)cat, "C11.a: the callback receives the category");
	VF_ASSERT(errno_in_cb == exp, "C11.a: errno already has its final value while the callback runs");
	VF_REACH("callback ran");
    }
    VF_REACH("end");
}
