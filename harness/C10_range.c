/*
 * C10.a  Out-of-range use of frequency-dependent quantities is refused, covering use is accepted.
 *        All frequencies are symbolic IEEE doubles in [1, 1e15] (bit-precise: the checks multiply by the constants
 *        1 +/- VNACAL_F_EXTRAPOLATION and compare).  Property C10 fixes only: a range that misses the needed band by at
 *        least 5 percent at the low end, the high end or both MUST be refused; a range that covers the band MUST be
 *        accepted; in between nothing is asserted.
 *   WHICH 0  check_single_frequency_range (vector standard vs calibration band)      [vnacal_new_parameter.c]
 *   WHICH 1  vnacal_new_set_m_error (noise grid vs calibration band), refusal direction and acceptance
 *   WHICH 2  vnacal_get_parameter_value (query frequency vs the parameter's own grid)
 *   WHICH 3  _vnacal_calibration_get_fmin/fmax_bound as used by vnacal_apply
 */
#include <complex.h>
#include <errno.h>
#include <math.h>
#include <stdlib.h>
#include <string.h>
#include "vf.h"
#define VF_STUB_VASPRINTF
#include "vnaerr.h"
#define VF_STUB_ERRFN
#include "vf_stubs.h"
#include "vnacal_new_parameter.c"

#ifndef WHICH
#define WHICH 0
#endif

static double freq(int slot)
{
    double f = VF_D(slot);
    VF_ASSUME(f >= 1.0 && f <= 1.0e15);
    return f;
}

/* numeric kernels are irrelevant to the range decision: arbitrary results */
#if WHICH == 1
int _vnacommon_spline_calc(int n, const double *x, const double *y, double (*c)[3]) { return 0; }
double _vnacommon_spline_eval(int n, const double *x, const double *y, const double (*c)[3], double xv) { return VF_D(40); }
#endif
#if WHICH == 2
double complex _vnacal_rfi(const double *xp, double complex *yp, int n, int m, int *segment, double x) { return 1.0; }
#endif

void harness(void)
{
    static vnacal_t vc;
    static vnacal_new_t vn;
    memset(&vc, 0, sizeof(vc));
    memset(&vn, 0, sizeof(vn));
    vc.vc_magic = VC_MAGIC;
    vc.vc_error_fn = vf_error_fn;
    vn.vn_magic = VN_MAGIC;
    vn.vn_vcp = &vc;
    double fmin = freq(0), fmax = freq(1);		/* the band that must be covered */
    VF_ASSUME(fmin <= fmax);
    double pf[2];					/* the supplied grid's end points */
    pf[0] = freq(2); pf[1] = freq(3);
    VF_ASSUME(pf[0] < pf[1]);
    int misses_low = pf[0] >= 1.05 * fmin, misses_high = pf[1] <= 0.95 * fmax;
    int covers = pf[0] <= fmin && pf[1] >= fmax;

    if (WHICH == 0) {
	static vnacal_parameter_t p;
	double complex g[2] = { 0, 0 };
	memset(&p, 0, sizeof(p));
	p.vpmr_type = VNACAL_VECTOR;
	p.vpmr_vcp = &vc;
	p.vpmr_frequencies = 2;
	p.vpmr_frequency_vector = pf;
	p.vpmr_gamma_vector = g;
	int rc = check_single_frequency_range("harness", &vn, fmin, fmax, &p);
	if (misses_low) { VF_ASSERT(rc == -1, "C10.a: a vector standard that misses the LOW end of the calibration band by >= 5% is refused"); VF_REACH("low miss"); }
	if (misses_high) { VF_ASSERT(rc == -1, "C10.a: a vector standard that misses the HIGH end of the calibration band by >= 5% is refused"); VF_REACH("high miss"); }
	if (covers) { VF_ASSERT(rc == 0, "C10.a: a vector standard covering the calibration band is accepted"); VF_REACH("covers"); }
	if (rc == -1) VF_ASSERT(errno == EINVAL && vf_err_count == 1, "C11: refusal is EINVAL with one callback");
    } else if (WHICH == 1) {
#if WHICH == 1
	double cf[2] = { fmin, fmax };
	double nf[2] = { 1.0e-3, 1.0e-3 };
	const vnacal_layout_t *vlp = &vn.vn_layout;
	_vnacal_layout(&vn.vn_layout, VNACAL_T8, 1, 1);
	VF_ASSUME(fmin < fmax);
	vn.vn_frequencies = 2;
	vn.vn_frequency_vector = cf;
	vn.vn_frequencies_valid = true;
	int rc = vnacal_new_set_m_error(&vn, pf, 2, nf, NULL);
	if (misses_low) { VF_ASSERT(rc == -1, "C10.a: a noise grid that misses the LOW end of the calibration band by >= 5% is refused"); VF_REACH("low miss"); }
	if (misses_high) { VF_ASSERT(rc == -1, "C10.a: a noise grid that misses the HIGH end of the calibration band by >= 5% is refused"); VF_REACH("high miss"); }
	if (covers) { VF_ASSERT(rc == 0, "C10.a: a noise grid covering the calibration band is accepted"); VF_REACH("covers"); }
	free(vn.vn_m_error_vector);
#endif
    } else if (WHICH == 2) {
#if WHICH == 2
	static vnacal_parameter_t p;
	static vnacal_parameter_t *pv[1];
	double complex g[2] = { 0, 0 };
	memset(&p, 0, sizeof(p));
	p.vpmr_type = VNACAL_VECTOR;
	p.vpmr_vcp = &vc;
	p.vpmr_frequencies = 2;
	p.vpmr_frequency_vector = pf;
	p.vpmr_gamma_vector = g;
	p.vpmr_hold_count = 1;
	pv[0] = &p;
	vc.vc_parameter_collection.vprmc_vector = pv;
	vc.vc_parameter_collection.vprmc_allocation = 1;
	vc.vc_parameter_collection.vprmc_count = 1;
	double q = freq(4);
	double complex v = vnacal_get_parameter_value(&vc, 0, q);
	if (q <= 0.95 * pf[0]) { VF_ASSERT(creal(v) == HUGE_VAL, "C10.a: a query >= 5% BELOW the vector parameter's grid is refused"); VF_REACH("low miss"); }
	if (q >= 1.05 * pf[1]) { VF_ASSERT(creal(v) == HUGE_VAL, "C10.a: a query >= 5% ABOVE the vector parameter's grid is refused"); VF_REACH("high miss"); }
	if (q >= pf[0] && q <= pf[1]) { VF_ASSERT(creal(v) != HUGE_VAL, "C10.a: a query inside the vector parameter's grid is evaluated"); VF_REACH("covers"); }
#endif
    } else {
	static vnacal_calibration_t cal;
	memset(&cal, 0, sizeof(cal));
	cal.cal_frequencies = 2;
	cal.cal_frequency_vector = pf;			/* calibration grid pf[0] < pf[1] */
	double lo = _vnacal_calibration_get_fmin_bound(&cal), hi = _vnacal_calibration_get_fmax_bound(&cal);
	double q = freq(4);
	/* vnacal_apply refuses q < lo and q > hi */
	if (q <= 0.95 * pf[0]) { VF_ASSERT(q < lo, "C10.a: apply's lower bound refuses a request >= 5% below the calibration grid"); VF_REACH("low miss"); }
	if (q >= 1.05 * pf[1]) { VF_ASSERT(q > hi, "C10.a: apply's upper bound refuses a request >= 5% above the calibration grid"); VF_REACH("high miss"); }
	if (q >= pf[0] && q <= pf[1]) { VF_ASSERT(!(q < lo) && !(q > hi), "C10.a: apply's bounds accept a request inside the calibration grid"); VF_REACH("covers"); }
    }
    VF_REACH("end");
}
