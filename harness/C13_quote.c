/*
 * C13.c  vnaproperty_quote_key turns ANY key of LEN arbitrary non-NUL bytes into a descriptor component that the
 *        scanner reads back as exactly that key: scan(quote_key(key)) = T_ID with text == key, then T_EOF.
 *        (LEN is enumerated 1..3; the bytes are symbolic.)  Also: the result never exceeds the size requested from malloc.
 */
#include <errno.h>
#include <stdlib.h>
#include <string.h>
#include <stdbool.h>
#include "vf.h"
#include "vf_libc.h"
#ifndef LEN
#define LEN 2
#endif
#if !defined(VF_NATIVE) && !defined(VF_LROUTE)
/* sizes are made concrete for CBMC: strlen of the key is LEN by construction (asserted), result buffers are allocated at
 * the maximum possible size while the requested size is remembered and the written length is checked against it */
static size_t vf_requested;
static void *vf_malloc_cap(size_t n) { vf_requested = n; void *p = malloc(2 * LEN + 2); VF_ASSUME(p != NULL); return p; }
static void *vf_calloc_cap(size_t n, size_t sz) { bool *p = malloc(sizeof(bool) * LEN); VF_ASSUME(p != NULL); VF_ASSERT(n * sz == LEN, "C13.c: map vector is sized for the key"); for (int i = 0; i < LEN; ++i) p[i] = false; return p; }
static size_t vf_strlen_key(const char *s) { for (int i = 0; i < LEN; ++i) VF_ASSERT(s[i] != '\000', "VF: key has LEN bytes"); VF_ASSERT(s[LEN] == '\000', "VF: key has LEN bytes"); return LEN; }
#define malloc(n) vf_malloc_cap(n)
#define calloc(n, s) vf_calloc_cap(n, s)
#define strlen(s) vf_strlen_key(s)
#endif
#include "vnaproperty.c"
#undef malloc
#undef calloc
#undef strlen

void harness(void)
{
    char key[2 * VF_STRCAP] = { 0 };
    for (int i = 0; i < LEN; ++i) {
	long c;
	VF_RANGE(c, i, -128, 127);
	VF_ASSUME(c != 0);
	key[i] = (char)c;
    }
    char *q = vnaproperty_quote_key(key);
    VF_ASSERT(q != NULL, "C13.c: quote_key succeeds");
    if (q == NULL)
	return;
    int qlen = 0;
    while (qlen < 2 * LEN + 1 && q[qlen] != '\000')
	++qlen;
    VF_ASSERT(q[qlen] == '\000' && qlen <= 2 * LEN, "C13.c: quoted key is terminated and at most twice as long");
#if !defined(VF_NATIVE) && !defined(VF_LROUTE)
    VF_ASSERT(vf_requested == 0 || (size_t)qlen + 1 <= vf_requested, "C13.c: quote_key writes no more than it asked malloc for");
#endif
    /* feed the quoted key to the real scanner, as a descriptor would be */
    char buf[2 * LEN + 4];
    for (int i = 0; i <= qlen && i < 2 * LEN + 1; ++i)
	buf[i] = q[i];
    buf[2 * LEN + 1] = '\000';
    scanner_t scn;
    memset(&scn, 0, sizeof(scn));
    scn.scn_input = buf;
    scn.scn_position = buf;
    scn.scn_cur = buf[0];
    scan(&scn);
    VF_ASSERT(scn.scn_token == T_ID, "C13.c: the quoted key scans as one identifier");
    if (scn.scn_token == T_ID) {
	bool same = true;
	for (int i = 0; i <= LEN; ++i)
	    if (scn.scn_text[i] != key[i])
		same = false;
	VF_ASSERT(same, "C13.c: the identifier text is exactly the original key (every byte, including leading/trailing blanks)");
	scan(&scn);
	VF_ASSERT(scn.scn_token == T_EOF, "C13.c: nothing follows the identifier");
    }
    free(q);
    VF_REACH("end");
}
