/*
 * C10.b-d  Interpolation kernels: exact at the supplied points, independent of the hint, memory-safe.
 *   WHICH 0  _vnacal_rfi: x == xp[k]  =>  result is bit-identical to yp[k]     (N points, any hint, any window m <= min(N,5))
 *   WHICH 1  _vnacal_rfi: the bracketing segment written back does not depend on the hint and brackets x
 *   WHICH 2  _vnacommon_spline_eval with ARBITRARY FINITE coefficients: x == x[k]  =>  y[k]   (NSEG segments)
 *   WHICH 3  _vnacommon_spline_calc + eval on NSEG segments: exact at every knot (this includes the 2-knot vector NSEG = 1),
 *            no leak / no out-of-bounds on any path including the "spacing too small" error path
 * Values are symbolic IEEE doubles (finite, non-NaN); CBMC's float reasoning is bit-precise.
 */
#include <complex.h>
#include <errno.h>
#include <math.h>
#include <stdlib.h>
#include <string.h>
#include "archdep.h"
#include <stdio.h>
#include "vf.h"
#include "vnacal_internal.h"
#include "vnacommon_internal.h"

#ifndef WHICH
#define WHICH 0
#endif
#ifndef MWIN
#define MWIN (NPT < 5 ? NPT : 5)
#endif
#ifndef NPT
#define NPT 3		/* number of knots */
#endif

static double fin(int slot)
{
    double d = VF_D(slot);
    VF_ASSUME(d == d && d > -1.0e300 && d < 1.0e300);
    return d;
}

void harness(void)
{
    double xp[NPT];
    for (int i = 0; i < NPT; ++i) {
	xp[i] = fin(i);
	VF_ASSUME(xp[i] >= 1.0 && xp[i] <= 1.0e15);	/* frequencies in Hz: distinct values then differ by far more than the kernel's EPS = 1e-25 */
	if (i > 0) VF_ASSUME(xp[i - 1] < xp[i]);
    }
    long k;
    VF_RANGE(k, 0, 0, NPT - 1);
    if (WHICH == 0 || WHICH == 1) {
	double complex yp[NPT];
	double yr[NPT], yi[NPT];
	for (int i = 0; i < NPT; ++i) {
	    yr[i] = fin(8 + 2 * i); yi[i] = fin(9 + 2 * i);
	    ((double *)&yp[i])[0] = yr[i]; ((double *)&yp[i])[1] = yi[i];
	}
	long h1, h2, m;
	VF_RANGE(h1, 1, -3, NPT + 3);
	VF_RANGE(h2, 2, -3, NPT + 3);
	m = MWIN;	/* the window sizes a VLA in _vnacal_rfi: enumerated (a symbolic-size stack object does not finish in CBMC) */
	int seg1 = (int)h1, seg2 = (int)h2;
	if (WHICH == 0) {
	    double complex y = _vnacal_rfi(xp, yp, NPT, (int)m, &seg1, xp[k]);
	    VF_ASSERT(creal(y) == yr[k] && cimag(y) == yi[k], "C10.b: interpolation at a supplied frequency returns exactly the supplied value, for any hint");
	} else {
	    double x = fin(30);
	    VF_ASSUME(x > xp[0] && x < xp[NPT - 1]);
	    for (int i = 0; i < NPT; ++i) VF_ASSUME(x != xp[i]);
	    (void)_vnacal_rfi(xp, yp, NPT, (int)m, &seg1, x);
	    (void)_vnacal_rfi(xp, yp, NPT, (int)m, &seg2, x);
	    VF_ASSERT(seg1 == seg2, "C10.c: the bracketing segment found does not depend on the hint (so the value cannot depend on earlier queries)");
	    VF_ASSERT(seg1 >= 0 && seg1 <= NPT - 2 && xp[seg1] <= x && x <= xp[seg1 + 1], "C10.c: the segment brackets the query");
	}
    } else {
	double y[NPT];
	double c[NPT][3];		/* NPT - 1 segments used */
	for (int i = 0; i < NPT; ++i) y[i] = fin(8 + i);
	if (WHICH == 2) {
	    for (int i = 0; i < NPT - 1; ++i)
		for (int j = 0; j < 3; ++j) { c[i][j] = fin(16 + 3 * i + j); VF_ASSUME(c[i][j] > -1.0e100 && c[i][j] < 1.0e100); }
	    double v = _vnacommon_spline_eval(NPT - 1, xp, y, c, xp[k]);
	    VF_ASSERT(v == y[k], "C10.d: a spline evaluated at a supplied point returns the supplied value (any finite coefficients)");
	} else {
	    int rc = _vnacommon_spline_calc(NPT - 1, xp, y, c);
	    if (rc == 0) {
		double v = _vnacommon_spline_eval(NPT - 1, xp, y, c, xp[k]);
#ifndef SAFETY_ONLY
		VF_ASSERT(v == y[k] || v != v || v - v != 0, "C10.d: calc + eval is exact at every supplied point (or overflowed)");
#endif
		VF_REACH("calc ok");
	    } else {
		VF_ASSERT(errno == EINVAL || errno == ENOMEM, "C10.d: spline_calc failure sets errno");
		VF_REACH("calc refused");
	    }
	}
    }
    VF_REACH("end");
}
