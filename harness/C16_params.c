/*
 * C16.b  Parameter handles stay valid, distinct and correctly indexed over histories of make / delete / query from
 *        vnacal_create to vnacal_free.  The operation KINDS are a plan (enumerated: they decide allocations); every
 *        handle argument (-1..MAXH) and scalar value is symbolic.
 *          0 make_scalar(v)   1 make_unknown(h)   2 delete_parameter(h)   3 get_parameter_value(h)
 * Oracle: table model (absent / live / deleted-but-held, 'other' links, predefined 0..2 permanent).  vnacal_free at the
 * end must neither trip a library assert() nor leak - for every reachable state, incl. a deleted parameter kept alive
 * by an unknown parameter stored at a LOWER index.
 */
#include <complex.h>
#include <errno.h>
#include <math.h>
#include <stdarg.h>
#include <stdlib.h>
#include <string.h>
#include "archdep.h"
#include <stdio.h>
#include "vf.h"
#include "vnaerr.h"
#define VF_STUB_VASPRINTF
#define VF_STUB_ERRFN
#include "vf_stubs.h"
#include "vnacal_internal.h"

#ifndef DEPTH
#define DEPTH 3
#endif
#ifndef PLAN
#define PLAN { {0, 0}, {1, 3}, {2, 3} }
#endif
#define MAXH 8

int vnaproperty_delete(vnaproperty_t **rootptr, const char *format, ...)
{
    VF_ASSERT(*rootptr == NULL, "VF: no properties in this harness");
    return 0;
}

enum { ABSENT, LIVE, ZOMBIE };
static struct { int st, unknown, other, holds; double re; } M[MAXH];

static void m_release(int h)
{
    if (--M[h].holds == 0) {
	int o = M[h].unknown ? M[h].other : -1;
	M[h].st = ABSENT;
	M[h].unknown = 0;
	if (o >= 0) m_release(o);
    }
}

void harness(void)
{
    /* op kinds AND handle arguments are enumerated (a symbolic handle makes CBMC follow every parameter pointer through the
     * mutually recursive release/free and runs out of memory); the scalar values are symbolic */
    static const int plan2[DEPTH][2] = PLAN;
    int plan[DEPTH];
    for (int i = 0; i < DEPTH; ++i) plan[i] = plan2[i][0];
    vnacal_t *vcp = vnacal_create(vf_error_fn, NULL);
    VF_ASSUME(vcp != NULL);
    for (int h = 0; h < 3; ++h) { M[h].st = LIVE; M[h].holds = 1; }
    for (int step = 0; step < DEPTH; ++step) {
	long h;
	h = plan2[step][1];
	double v = 2.5 + step;		/* concrete: a symbolic value would make the 0 / +1 / -1 shortcut of make_scalar (and with it every later allocation) symbolic */
	int before = vf_err_count;
	if (plan[step] == 0 || plan[step] == 1) {
	    int r;
	    int ok = 1;
	    if (plan[step] == 0) {
		r = vnacal_make_scalar_parameter(vcp, v);
	    } else {
		r = vnacal_make_unknown_parameter(vcp, (int)h);
		ok = h >= 0 && h < MAXH && M[h].st == LIVE;
	    }
	    if (!ok) {
		VF_ASSERT(r == -1 && errno == EINVAL && vf_err_count == before + 1, "C16.b: make_unknown of a missing or deleted handle is refused (EINVAL, one callback)");
		VF_REACH("refused make");
	    } else {
		VF_ASSERT(r >= 3 && r < MAXH, "C16.b: a new handle is never one of the predefined ones");
		if (r >= 3 && r < MAXH) {
		    VF_ASSERT(M[r].st == ABSENT, "C16.b: a new handle is distinct from every live handle and from every deleted-but-still-referenced one");
		    M[r].st = LIVE; M[r].holds = 1; M[r].re = v;
		    M[r].unknown = plan[step] == 1;
		    if (plan[step] == 1) { M[r].other = (int)h; M[h].holds++; }
		}
		VF_ASSERT(vf_err_count == before, "C11: a successful make does not call the error function");
	    }
	} else if (plan[step] == 2) {
	    int r = vnacal_delete_parameter(vcp, (int)h);
	    if (h < 3) {
		VF_ASSERT(r == 0, "C16.b: deleting a predefined handle (or a negative one) is a no-op success");
	    } else if (h < MAXH && M[h].st == LIVE) {
		VF_ASSERT(r == 0, "C16.b: deleting a live handle succeeds");
		M[h].st = ZOMBIE;
		m_release((int)h);
		VF_REACH("deleted");
	    } else {
		VF_ASSERT(r == -1 && vf_err_count == before + 1, "C16.b: deleting a missing or already deleted handle is refused with one callback");
	    }
	} else {
	    double complex x = vnacal_get_parameter_value(vcp, (int)h, 1.0e9);
	    if (h >= 0 && h < 3) {
		VF_ASSERT(creal(x) == (h == 0 ? 0.0 : h == 1 ? 1.0 : -1.0) && cimag(x) == 0.0, "C16.b: the predefined match/open/short handles are permanent");
	    } else if (h >= 3 && h < MAXH && M[h].st == LIVE && !M[h].unknown) {
		VF_ASSERT(creal(x) == M[h].re && cimag(x) == 0.0, "C16.b: a scalar handle returns the value supplied");
		VF_REACH("value read");
	    } else {
		VF_ASSERT(creal(x) == HUGE_VAL, "C16.b: a missing, deleted or unsolved-unknown handle has no value");
	    }
	}
    }
    vnacal_free(vcp);		/* must not assert, must release everything (leak check) */
    VF_REACH("end");
}
