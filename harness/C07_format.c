/*
 * C07.a  Number formatting in vnacal_save never overflows, for EVERY precision the setters accept (1 .. VNACAL_MAX_PRECISION).
 *        sprintf / asprintf / snprintf are replaced by their C11 7.21.6 LENGTH CONTRACT for the conversions used here
 *        (%.*e, %+.*e, %+a): the stub computes the maximum number of bytes the conversion can produce and checks it against the
 *        size of the destination object (sprintf), or returns a fresh buffer (asprintf).  precision and the values are symbolic.
 */
#include <errno.h>
#include <stdarg.h>
#include <stdlib.h>
#include <string.h>
#include "vf.h"

#ifndef VF_NATIVE
#include <complex.h>
double creal(double complex z) { return ((double *)&z)[0]; }
double cimag(double complex z) { return ((double *)&z)[1]; }
static int vf_max_len(const char *fmt, va_list ap)
{
    /* the three formats of vnacal_save.c; %e with P digits after the point: sign d . P digits e sign 3 digits = P + 8 (P >= 1), 7 if P == 0 */
    if (strcmp(fmt, "%.*e") == 0) { int p = va_arg(ap, int); return p > 0 ? p + 8 : 7; }
    if (strcmp(fmt, "%+a %+aj") == 0) return 24 + 1 + 24 + 1;
    if (strcmp(fmt, "%+.*e %+.*ej") == 0) {
	int p1 = va_arg(ap, int); (void)va_arg(ap, double); int p2 = va_arg(ap, int);
	return (p1 > 0 ? p1 + 8 : 7) + 1 + (p2 > 0 ? p2 + 8 : 7) + 1;
    }
    VF_ASSERT(0, "VF: unexpected format string in vnacal_save number formatting");
    return 0;
}
int sprintf(char *buf, const char *fmt, ...)
{
    va_list ap;
    va_start(ap, fmt);
    int n = vf_max_len(fmt, ap);
    va_end(ap);
    VF_ASSERT((size_t)n + 1 <= __CPROVER_OBJECT_SIZE(buf), "C07.a: the formatted number (C11 maximum length for the conversion and precision) fits the destination buffer");
    buf[0] = '1'; buf[1] = '\000';
    return n;
}
int asprintf(char **strp, const char *fmt, ...)
{
    char *p = malloc(8);
    VF_ASSUME(p != NULL);
    p[0] = '1'; p[1] = '\000';
    *strp = p;
    return 1;
}
int snprintf(char *buf, size_t size, const char *fmt, ...)
{
    va_list ap;
    va_start(ap, fmt);
    int n = vf_max_len(fmt, ap);
    va_end(ap);
    VF_ASSERT(size <= __CPROVER_OBJECT_SIZE(buf), "C07.a: snprintf is given the true size of its buffer");
    VF_ASSERT((size_t)n < size, "C07.a: the formatted number (C11 maximum length) is not truncated by the buffer it is printed into");
    if (size > 0) { buf[0] = size > 1 ? '1' : '\000'; if (size > 1) buf[1] = '\000'; }
    return n;
}
#endif
#include "vnacal_save.c"

#ifndef VF_NATIVE
/* libyaml document layer: out of scope here (C07.b); only the buffer handed over must be a valid string */
int yaml_document_add_scalar(yaml_document_t *document, const yaml_char_t *tag, const yaml_char_t *value, int length, yaml_scalar_style_t style)
{
    VF_ASSERT(value != NULL && length >= 0, "C07.a: a string is handed to libyaml");
    return 1;
}
#endif

void harness(void)
{
    static yaml_document_t doc;
    long prec, which;
    VF_RANGE(prec, 0, 1, VNACAL_MAX_PRECISION);
    VF_RANGE(which, 1, 0, 1);
    double re = VF_D(0), im = VF_D(1);
#ifdef VF_NATIVE
    yaml_document_initialize(&doc, NULL, NULL, NULL, 1, 1);
    re = -1.2345678901234567e-300; im = -9.8765432109876543e+300;
#endif
    int rc;
    if (which == 0) {
	rc = add_double(&doc, re, (int)prec);
	VF_REACH("add_double");
    } else {
	double complex v;
	((double *)&v)[0] = re; ((double *)&v)[1] = im;
	rc = add_complex(&doc, v, (int)prec);
	VF_REACH("add_complex");
    }
    VF_ASSERT(rc != 0, "C07.a: a tag or -1 is returned");
#ifdef VF_NATIVE
    if (rc > 0) {
	/* native replay: the text handed to libyaml must be the complete number(s) */
	yaml_node_t *node = yaml_document_get_node(&doc, rc);
	const char *txt = (const char *)node->data.scalar.value;
	size_t len = node->data.scalar.length;
	if (which == 1) VF_ASSERT(len > 0 && txt[len - 1] == 'j', "C07.a: the formatted number (C11 maximum length) is not truncated by the buffer it is printed into");
	else VF_ASSERT(strtod(txt, NULL) == re || prec < 17, "C07.a: the formatted number is complete");
    }
#endif
#ifdef VF_NATIVE
    yaml_document_delete(&doc);
#endif
    VF_REACH("end");
}
