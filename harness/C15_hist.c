/*
 * C15.a  vnadata_t refines an abstract typed-array model over every history of DEPTH operations
 *        (dimensions 0..MAXD, frequencies 0..MAXF, indices from -1..n+1, all 11 types + invalid types).
 * Also serves C03 (memory safety / leaks along the same histories) and C11.b (refused => unchanged,
 * exactly one error callback per refused call, none on success).
 *
 * Oracle: the abstract model below, written from vnadata(3): resize keeps the row-major linear cell
 * index, exposes 0 / 0 Hz / 50 ohm in newly exposed cells; z0 setters in per-frequency mode reset to
 * ordinary impedances at 50 ohm; fz0 setters switch forward preserving the ordinary vector; any index
 * outside [0, n) is refused with the failure value and no effect.
 */
#include <complex.h>
#include <errno.h>
#include <stdlib.h>
#include <math.h>
#include "vnadata.h"
#define VF_STUB_VASPRINTF
#define VF_STUB_ERRFN
#include "vf_stubs.h"

#ifndef MAXD
#define MAXD 2
#endif
#ifndef MAXF
#define MAXF 2
#endif
#ifndef DEPTH
#define DEPTH 2
#endif
#define MAXC (MAXD * MAXD)
#define LSLOTS 6
#define DSLOTS (2 * MAXC)

typedef struct { double re, im; } cx;
static struct model {
    int type, rows, cols, F, fz0;
    cx cell[MAXF][MAXC];
    double freq[MAXF];
    cx z0[MAXD];
    cx fz[MAXF][MAXD];
} M;

#ifdef ALLOCFAIL
/*
 * C12: exactly one allocation made by the library fails; WHICH one is symbolic (the solver quantifies over every allocation
 * index of the history in one query).  The faulted call must fail with -1 / ENOMEM (or still succeed), the object must stay
 * usable, and repeating the call without the fault must give what the fault-free model predicts.
 */
static long vf_fail_at = -1;
static long vf_alloc_count;
static int vf_fault_fired;
int vf_alloc_hook(void)
{
    if (vf_alloc_count++ == vf_fail_at) { vf_fault_fired = 1; errno = ENOMEM; return 1; }
    return 0;
}
#define CHK(c, msg) VF_ASSERT((attempt == 0 && vf_fault_fired && !fired_before) || (c), msg)
#else
#define CHK(c, msg) VF_ASSERT(c, msg)
#endif

static int max(int a, int b) { return a > b ? a : b; }
static int min(int a, int b) { return a < b ? a : b; }

static int type_ok(int type, int r, int c)
{
    switch (type) {
    case VPT_UNDEF: return 1;
    case VPT_S: case VPT_Z: case VPT_Y: return r == c;
    case VPT_T: case VPT_U: case VPT_H: case VPT_G: case VPT_A: case VPT_B: return r == 2 && c == 2;
    case VPT_ZIN: return r == 1;
    default: return 0;
    }
}

static void m_reset_cells(int f) { for (int i = 0; i < MAXC; ++i) { M.cell[f][i].re = 0; M.cell[f][i].im = 0; } }
static void m_reset_fz(int f) { for (int p = 0; p < MAXD; ++p) { M.fz[f][p].re = 50; M.fz[f][p].im = 0; } }

static int m_resize(int type, int r, int c, int f)
{
    if (r < 0 || c < 0 || f < 0 || !type_ok(type, r, c)) return -1;
    int ocells = M.rows * M.cols, ncells = r * c, oports = max(M.rows, M.cols), nports = max(r, c);
    for (int k = 0; k < MAXF; ++k) {
	if (k >= f || k >= M.F) { m_reset_cells(k); M.freq[k] = 0; m_reset_fz(k); }
	for (int i = 0; i < MAXC; ++i)
	    if (i >= min(ocells, ncells)) { M.cell[k][i].re = 0; M.cell[k][i].im = 0; }
	for (int p = 0; p < MAXD; ++p)
	    if (p >= min(oports, nports)) { M.fz[k][p].re = 50; M.fz[k][p].im = 0; }
    }
    for (int p = 0; p < MAXD; ++p)
	if (p >= min(oports, nports)) { M.z0[p].re = 50; M.z0[p].im = 0; }
    M.type = type; M.rows = r; M.cols = c; M.F = f;
    return 0;
}

static void m_to_z0(void)
{
    if (M.fz0) {
	M.fz0 = 0;
	for (int p = 0; p < MAXD; ++p) { M.z0[p].re = 50; M.z0[p].im = 0; }
    }
}

static void m_to_fz0(void)
{
    if (!M.fz0) {
	M.fz0 = 1;
	for (int k = 0; k < MAXF; ++k)
	    for (int p = 0; p < MAXD; ++p) {
		/* rows that are not exposed keep their initial value */
		if (k < M.F && p < max(M.rows, M.cols)) M.fz[k][p] = M.z0[p];
		else { M.fz[k][p].re = 50; M.fz[k][p].im = 0; }
	    }
    }
}

static double complex mkc(double re, double im)
{
    double complex z;
    ((double *)&z)[0] = re;	/* not re + I*im: 0*inf would inject a NaN the library never saw */
    ((double *)&z)[1] = im;
    return z;
}

static double in_d(int slot)
{
    double d = VF_D(slot);
    VF_ASSUME(d == d);		/* NaN payloads cannot be compared with ==; values are opaque data here */
    return d;
}

void harness(void)
{
    vnadata_t *vdp = vnadata_alloc(vf_error_fn, NULL);
    VF_ASSUME(vdp != NULL);
#ifdef ALLOCFAIL
    /* FAILSTEP / FAILAT are enumerated by the runner: a symbolic fault index makes every later allocation symbolic and CBMC runs out of memory */
#endif
    M.type = VPT_UNDEF;
    for (int k = 0; k < MAXF; ++k) { m_reset_fz(k); }
    for (int p = 0; p < MAXD; ++p) { M.z0[p].re = 50; M.z0[p].im = 0; }

    for (int step = 0; step < DEPTH; ++step) {
	int lb = step * LSLOTS, db = step * DSLOTS;
	long op, type, r, c, f, port;
	/*
	 * Allocation sizes must be path-concrete for CBMC (symbolic-size heap objects are handled at byte level and
	 * do not finish): the PLAN fixes, per step, the operation kind and - for the shape-changing operations
	 * resize/init - the type and dimensions.  PLAN op 99 = any setter (3..12) chosen by the solver.  Everything
	 * else (indices, ports, values, the setter kind) is symbolic.
	 */
	static const int plan[DEPTH][5] = PLAN;
	op = plan[step][0];
	if (op == 99) VF_RANGE(op, lb + 0, 3, 12);
	if (op == 1 || op == 2) {
	    type = plan[step][1]; r = plan[step][2]; c = plan[step][3]; f = plan[step][4];
	} else {
	    VF_RANGE(type, lb + 1, -1, 11);
	    VF_RANGE(r, lb + 2, -1, MAXD + 1);
	    VF_RANGE(c, lb + 3, -1, MAXD + 1);
	    VF_RANGE(f, lb + 4, -1, MAXF + 1);
	}
	VF_RANGE(port, lb + 5, -1, MAXD + 1);
#ifdef ALLOCFAIL
	/* in the fault-injection runs the index arguments are the concrete valid ones: whether a call allocates must not depend on a symbolic
	 * accept/refuse decision, otherwise the heap shape after the fault is symbolic and CBMC runs out of memory */
	if (op != 1 && op != 2) { r = 0; c = 0; f = 0; port = 0; type = M.type; }
#endif
	double v[DSLOTS];
	for (int i = 0; i < DSLOTS; ++i) v[i] = in_d(db + i);
	double complex val = mkc(v[0], v[1]);
	double complex vec[MAXC];
	for (int i = 0; i < MAXC; ++i) vec[i] = mkc(v[2 * i], v[2 * i + 1]);
	int before = vf_err_count, rc = 0, exp = 0, ports = max(M.rows, M.cols);
	int fault_now = 0;
#ifdef ALLOCFAIL
	/* the allocation counter restarts at every step: along one path through ONE library call the count is concrete, whereas across
	 * steps it would depend on symbolic accept/refuse outcomes (and a symbolic allocation outcome does not finish in CBMC) */
	vf_alloc_count = 0;
	vf_fail_at = (step == FAILSTEP && !vf_fault_fired) ? FAILAT : -1;
	struct model M0 = M;
	for (int attempt = 0; attempt < 2; ++attempt) {
	int fired_before = vf_fault_fired;
	if (attempt == 1) { M = M0; before = vf_err_count; ports = max(M.rows, M.cols); fault_now = 0; vf_fail_at = -1; }
#endif
	switch (op) {
	case 0:
	    break;
	case 1:
	case 2:
	    VF_ASSUME(r <= MAXD && c <= MAXD && f <= MAXF);
	    if (op == 2) {
		rc = vnadata_init(vdp, (vnadata_parameter_type_t)type, r, c, f);
		/* init clears first, then applies the new shape (which may be refused) */
		m_resize(VPT_UNDEF, 0, 0, 0);
		m_to_z0();
		for (int p = 0; p < MAXD; ++p) { M.z0[p].re = 50; M.z0[p].im = 0; }
		exp = m_resize(type, r, c, f);
		CHK(rc == exp, "C15.a: vnadata_init accepts exactly the documented type/dimension combinations");
	    } else {
		rc = vnadata_resize(vdp, (vnadata_parameter_type_t)type, r, c, f);
		exp = m_resize(type, r, c, f);
		CHK(rc == exp, "C15.a: vnadata_resize accepts exactly the documented type/dimension combinations");
	    }
	    break;
	case 3:
	    rc = vnadata_set_type(vdp, (vnadata_parameter_type_t)type);
	    exp = type_ok(type, M.rows, M.cols) ? 0 : -1;
	    if (exp == 0) M.type = type;
	    CHK(rc == exp, "C15.a: vnadata_set_type enforces the type/dimension rule");
	    break;
	case 4:
	    rc = vnadata_set_cell(vdp, f, r, c, val);
	    exp = (f >= 0 && f < M.F && r >= 0 && r < M.rows && c >= 0 && c < M.cols) ? 0 : -1;
	    if (exp == 0) { M.cell[f][r * M.cols + c].re = v[0]; M.cell[f][r * M.cols + c].im = v[1]; }
	    CHK(rc == exp, "C15.a: vnadata_set_cell refuses every index outside [0,n)");
	    break;
	case 5:
	    rc = vnadata_set_frequency(vdp, f, v[0]);
	    exp = (f >= 0 && f < M.F) ? 0 : -1;
	    if (exp == 0) M.freq[f] = v[0];
	    CHK(rc == exp, "C15.a: vnadata_set_frequency refuses every index outside [0,n)");
	    break;
	case 6:
	    rc = vnadata_set_z0(vdp, port, val);
	    exp = (port >= 0 && port < ports) ? 0 : -1;
	    if (exp == 0) { m_to_z0(); M.z0[port].re = v[0]; M.z0[port].im = v[1]; }
	    CHK(rc == exp, "C15.a: vnadata_set_z0 refuses every port index outside [0,ports) including ports");
	    break;
	case 7:
	    rc = vnadata_set_all_z0(vdp, val);
	    m_to_z0();
	    for (int p = 0; p < ports; ++p) { M.z0[p].re = v[0]; M.z0[p].im = v[1]; }
	    CHK(rc == 0, "C15.a: vnadata_set_all_z0 succeeds");
	    break;
	case 8:
	    rc = vnadata_set_fz0(vdp, f, port, val);
	    exp = (f >= 0 && f < M.F && port >= 0 && port < ports) ? 0 : -1;
	    if (exp == 0) { m_to_fz0(); M.fz[f][port].re = v[0]; M.fz[f][port].im = v[1]; }
	    CHK(rc == exp, "C15.a: vnadata_set_fz0 refuses every index outside [0,n) including n");
	    break;
	case 9:
	    rc = vnadata_set_z0_vector(vdp, vec);
	    m_to_z0();
	    for (int p = 0; p < ports; ++p) { M.z0[p].re = v[2 * p]; M.z0[p].im = v[2 * p + 1]; }
	    CHK(rc == 0, "C15.a: vnadata_set_z0_vector succeeds");
	    break;
	case 10:
	    rc = vnadata_set_fz0_vector(vdp, f, vec);
	    exp = (f >= 0 && f < M.F) ? 0 : -1;
	    if (exp == 0) {
		m_to_fz0();
		for (int p = 0; p < ports; ++p) { M.fz[f][p].re = v[2 * p]; M.fz[f][p].im = v[2 * p + 1]; }
	    }
	    CHK(rc == exp, "C15.a: vnadata_set_fz0_vector refuses every frequency index outside [0,n)");
	    break;
	case 11:
	    rc = vnadata_set_matrix(vdp, f, vec);
	    exp = (f >= 0 && f < M.F) ? 0 : -1;
	    if (exp == 0)
		for (int i = 0; i < M.rows * M.cols; ++i) { M.cell[f][i].re = v[2 * i]; M.cell[f][i].im = v[2 * i + 1]; }
	    CHK(rc == exp, "C15.a: vnadata_set_matrix refuses every frequency index outside [0,n)");
	    break;
	case 12:
	    rc = vnadata_set_from_vector(vdp, r, c, vec);
	    exp = (r >= 0 && r < M.rows && c >= 0 && c < M.cols) ? 0 : -1;
	    if (exp == 0)
		for (int k = 0; k < M.F; ++k) { M.cell[k][r * M.cols + c].re = v[2 * k]; M.cell[k][r * M.cols + c].im = v[2 * k + 1]; }
	    CHK(rc == exp, "C15.a: vnadata_set_from_vector refuses every row/column outside [0,n)");
	    break;
	}
#ifdef ALLOCFAIL
	if (attempt == 0 && vf_fault_fired && !fired_before) {
	    /* the fault fired inside this call */
	    if (rc == -1) {
		VF_ASSERT(errno == ENOMEM, "C12: a call that fails because an allocation failed sets errno to ENOMEM");
		VF_ASSERT(vf_err_count >= before + 1, "C12: the allocation failure is reported through the error function");
		VF_REACH("faulted call failed cleanly");
	    }
	    /* the object must still be readable, then the same call is repeated without the fault */
	    (void)vnadata_get_rows(vdp); (void)vnadata_get_columns(vdp); (void)vnadata_get_frequencies(vdp);
	    if (rc == -1) continue;
	}
	break;
	}
	fault_now = 0;
#endif
	if (rc == -1) {
	    VF_ASSERT(vf_err_count == before + 1, "C11.b: a refused vnadata call invokes the error callback exactly once");
	    VF_ASSERT(errno == EINVAL, "C11.b: a vnadata call refused for its arguments sets errno to EINVAL");
	    VF_REACH("refused call");
	} else {
	    VF_ASSERT(vf_err_count == before, "C11.b: a successful vnadata call does not invoke the error callback");
	}
    }

    /* observation: every getter at a symbolic (possibly out-of-range) index agrees with the model */
    {
	long f, r, c, port;
	int lb = DEPTH * LSLOTS;
	VF_RANGE(f, lb + 0, -1, MAXF + 1);
	VF_RANGE(r, lb + 1, -1, MAXD + 1);
	VF_RANGE(c, lb + 2, -1, MAXD + 1);
	VF_RANGE(port, lb + 3, -1, MAXD + 1);
	int ports = max(M.rows, M.cols);
	VF_ASSERT(vnadata_get_type(vdp) == M.type, "C15.a: type follows the model");
	VF_ASSERT(vnadata_get_rows(vdp) == M.rows && vnadata_get_columns(vdp) == M.cols, "C15.a: dimensions follow the model");
	VF_ASSERT(vnadata_get_frequencies(vdp) == M.F, "C15.a: frequency count follows the model");
	VF_ASSERT(vnadata_has_fz0(vdp) == (M.fz0 != 0), "C15.a: impedance mode follows the model");
	double complex x = vnadata_get_cell(vdp, f, r, c);
	if (f >= 0 && f < M.F && r >= 0 && r < M.rows && c >= 0 && c < M.cols) {
	    VF_ASSERT(creal(x) == M.cell[f][r * M.cols + c].re && cimag(x) == M.cell[f][r * M.cols + c].im,
		    "C15.a: vnadata_get_cell returns the model's value (preserved, set, or initial 0)");
	    VF_REACH("in-range cell");
	} else {
	    VF_ASSERT(creal(x) == HUGE_VAL, "C15.a: vnadata_get_cell refuses every index outside [0,n)");
	}
	double fr = vnadata_get_frequency(vdp, f);
	if (f >= 0 && f < M.F) VF_ASSERT(fr == M.freq[f], "C15.a: vnadata_get_frequency returns the model's value");
	else VF_ASSERT(fr == HUGE_VAL, "C15.a: vnadata_get_frequency refuses every index outside [0,n)");
	x = vnadata_get_z0(vdp, port);
	if (port >= 0 && port < ports && !M.fz0) {
	    VF_ASSERT(creal(x) == M.z0[port].re && cimag(x) == M.z0[port].im, "C15.a: vnadata_get_z0 returns the model's value (set or 50 ohm)");
	    VF_REACH("in-range z0");
	} else {
	    VF_ASSERT(creal(x) == HUGE_VAL, "C15.a: vnadata_get_z0 refuses port index outside [0,ports) - including ports - and per-frequency mode");
	}
	x = vnadata_get_fz0(vdp, f, port);
	if (f >= 0 && f < M.F && port >= 0 && port < ports) {
	    cx e = M.fz0 ? M.fz[f][port] : M.z0[port];
	    VF_ASSERT(creal(x) == e.re && cimag(x) == e.im, "C15.a: vnadata_get_fz0 returns the model's value in either mode");
	    VF_REACH("in-range fz0");
	} else {
	    VF_ASSERT(creal(x) == HUGE_VAL, "C15.a: vnadata_get_fz0 refuses every index outside [0,n) including n");
	}
    }
    vnadata_free(vdp);
    VF_REACH("end");
}
