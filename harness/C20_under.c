/*
 * C20.b/c (+ C03 for the vnacal_new family, C11.c)  Too few standards are reported, then a retry after adding the missing one solves.
 *   TYPE 1-port calibration (T8 or U8, 1x1, F frequencies): NSTD single-reflect standards (match / open / short) are added with SYMBOLIC measured
 *   values, then vnacal_new_solve is called.  With fewer than the 3 needed equations it must return -1 with errno EDOM (one callback) and install no
 *   calibration; after the remaining standards are added the solve must succeed (numeric kernels answer "non-singular"), vnacal_add_calibration must
 *   return the index that vnacal_find_calibration then reports, and freeing everything must leave no allocation (leak check over the add / solve code).
 *   Numeric kernels (_vnacommon_qrsolve*, _vnacommon_lu/mldivide/mrdivide) are stubs that write arbitrary values and report full rank: no claim is made
 *   about the values, only about counting, error paths, ownership and memory.
 */
#include <complex.h>
#include <errno.h>
#include <math.h>
#include <stdarg.h>
#include <stdlib.h>
#include <string.h>
#include "archdep.h"
#include <stdio.h>
#include "vf.h"
#include "vnaerr.h"
#define VF_STUB_VASPRINTF
#define VF_STUB_ERRFN
#include "vf_stubs.h"
#include "vnacal_new_internal.h"
#include "vnacommon_internal.h"

#ifndef CTYPE
#define CTYPE VNACAL_T8
#endif
#ifndef NSTD
#define NSTD 1
#endif
#ifndef FREQS
#define FREQS 1
#endif

static double complex mkc(double re, double im) { double complex z; ((double *)&z)[0] = re; ((double *)&z)[1] = im; return z; }
static double val(int slot) { double d = VF_D(slot); VF_ASSUME(d == d && d > -1.0e6 && d < 1.0e6); return d; }

/* ---- numeric kernels: arbitrary finite results, full rank / non-zero determinant ---- */
int _vnacommon_qrsolve(complex double *x, complex double *a, complex double *b, int m, int n, int o)
{
    VF_ASSERT(m >= n, "C20.b: the least-squares kernel is never handed fewer rows than unknowns");
    for (int i = 0; i < n * o; ++i) x[i] = mkc(1.0 + i, 0.5);
    return n;
}
void _vnacommon_qrsolve2(double complex *x, const double complex *q, const double complex *r, const double complex *b, const int m, const int n, const int o)
{
    for (int i = 0; i < n * o; ++i) x[i] = mkc(1.0 + i, 0.5);
}
int _vnacommon_qr(complex double *a, complex double *q, complex double *r, int m, int n)
{
    for (int i = 0; i < m * m; ++i) q[i] = mkc(0.5, 0.0);
    for (int i = 0; i < m * n; ++i) r[i] = mkc(1.5, 0.0);
    return n < m ? n : m;
}
double complex _vnacommon_minverse(complex double *x, complex double *a, int n)
{
    for (int i = 0; i < n * n; ++i) x[i] = mkc(0.75 + i, 0.0);
    return mkc(1.0, 0.0);
}
double complex _vnacommon_mldivide(complex double *x, complex double *a, const double complex *b, int m, int n)
{
    for (int i = 0; i < m * n; ++i) x[i] = mkc(2.0 + i, 0.25);
    return mkc(1.0, 0.0);
}
double complex _vnacommon_mrdivide(complex double *x, const complex double *b, double complex *a, int m, int n)
{
    for (int i = 0; i < m * n; ++i) x[i] = mkc(2.0 + i, 0.25);
    return mkc(1.0, 0.0);
}
#ifndef VF_NATIVE
/* libc pieces CBMC has no model for */
struct vf_qelem { struct vf_qelem *q_forw, *q_back; };
void insque(void *elem, void *prev)
{
    struct vf_qelem *e = elem, *p = prev;
    e->q_forw = p->q_forw; e->q_back = p;
    p->q_forw->q_back = e; p->q_forw = e;
}
void remque(void *elem)
{
    struct vf_qelem *e = elem;
    e->q_back->q_forw = e->q_forw; e->q_forw->q_back = e->q_back;
}
void qsort(void *base, size_t n, size_t size, int (*cmp)(const void *, const void *))
{
    /* insertion sort through the real comparison callback (n is small here) */
    char *b = base; char tmp[64];
    VF_ASSERT(size <= sizeof(tmp), "VF: qsort element fits the model's buffer");
    for (size_t i = 1; i < n; ++i)
	for (size_t j = i; j > 0 && cmp(b + (j - 1) * size, b + j * size) > 0; --j) {
	    memcpy(tmp, b + j * size, size); memcpy(b + j * size, b + (j - 1) * size, size); memcpy(b + (j - 1) * size, tmp, size);
	}
}
#endif
int vnaproperty_delete(vnaproperty_t **rootptr, const char *format, ...) { return 0; }
int vnaproperty_copy(vnaproperty_t **destination, const vnaproperty_t *source) { *destination = NULL; return 0; }

void harness(void)
{
    static const int stds[3] = { VNACAL_MATCH, VNACAL_OPEN, VNACAL_SHORT };
    vnacal_t *vcp = vnacal_create(vf_error_fn, NULL);
    VF_ASSUME(vcp != NULL);
    vnacal_new_t *vnp = vnacal_new_alloc(vcp, CTYPE, 1, 1, FREQS);
    VF_ASSERT(vnp != NULL, "VF: vnacal_new_alloc succeeds");
    double fv[FREQS];
    for (int f = 0; f < FREQS; ++f) fv[f] = 1.0e9 * (f + 1);
    int rc = vnacal_new_set_frequency_vector(vnp, fv);
    VF_ASSERT(rc == 0, "VF: frequency vector accepted");
    double complex mv[3][FREQS];
    double complex *m1[3][1];
    for (int k = 0; k < 3; ++k) {
	for (int f = 0; f < FREQS; ++f) mv[k][f] = mkc(val(2 * (k * FREQS + f)), val(2 * (k * FREQS + f) + 1));
	m1[k][0] = mv[k];
    }
    for (int k = 0; k < NSTD; ++k) {
	rc = vnacal_new_add_single_reflect_m(vnp, m1[k], 1, 1, stds[k], 1);
	VF_ASSERT(rc == 0, "C20: a well-formed single-reflect standard is accepted");
    }
    int before = vf_err_count;
    rc = vnacal_new_solve(vnp);
    if (NSTD < 3) {
	VF_ASSERT(rc == -1 && errno == EDOM, "C20.b: fewer equations than unknown error terms => vnacal_new_solve fails with EDOM instead of inventing terms");
	VF_ASSERT(vf_err_count == before + 1, "C11: the failed solve is reported exactly once");
	VF_ASSERT(vnp->vn_calibration == NULL, "C20.b: a failed solve installs no calibration");
	VF_REACH("under-determined refused");
	for (int k = NSTD; k < 3; ++k) {
	    rc = vnacal_new_add_single_reflect_m(vnp, m1[k], 1, 1, stds[k], 1);
	    VF_ASSERT(rc == 0, "C20.c: standards can still be added after a failed solve");
	}
	before = vf_err_count;
	rc = vnacal_new_solve(vnp);
    }
    VF_ASSERT(rc == 0, "C20.c: with the determining set of standards the (repeated) solve succeeds");
    VF_ASSERT(vnp->vn_calibration != NULL && vf_err_count == before, "C11.c: a successful solve installs one calibration and reports no error");
    char name[2] = { 'c', 0 };
    int ci = vnacal_add_calibration(vcp, name, vnp);
    VF_ASSERT(ci >= 0 && vnacal_find_calibration(vcp, name) == ci, "C11.d: the index returned by vnacal_add_calibration is the one find honours");
    vnacal_new_free(vnp);
    vnacal_free(vcp);
    VF_REACH("end");
}
