/*
 * C05  vnadata_convert applies the right conversion with the right impedances.
 *      Every vnaconv_* kernel is replaced by a recording stub (gen/C05_stubs.h, generated from vnaconv.h): it notes
 *      (from letter, to letter, n-port?, in, out, z0, n) and writes tagged values to exactly its output extent.  The
 *      numeric content of the kernels is C04's subject.
 *      Enumerated (they size heap objects): FROM type, TO type, ROWS x COLS, FREQ, FZ (per-frequency z0), INPLACE.
 *      Symbolic: every cell, frequency and impedance value (compared by equality only).
 * Oracle (from the NAMES and vnadata(3) only): (X,Y) is valid iff X == Y, or X in S..B and Y == ZIN, or X,Y in S..B with
 * Y in {T,U,H,G,A,B} requiring a 2x2 input; the kernel called must be vnaconv_<x>to<y>[n|i|in]; exactly one call per
 * frequency with that frequency's matrix and that frequency's impedance vector.
 */
#include <complex.h>
#include <errno.h>
#include <math.h>
#include <stdlib.h>
#include <string.h>
#include "vf.h"
#include "vnaerr.h"
#define VF_STUB_VASPRINTF
#define VF_STUB_ERRFN
#include "vf_stubs.h"
#include "vnadata_internal.h"
#include "vnaconv.h"

#ifndef FROM
#define FROM 1
#define TO 4
#define ROWS 2
#define COLS 2
#define FREQ 2
#define FZ 0
#define INPLACE 0
#endif
#define MAXCALLS 4
#define PORTS (ROWS > COLS ? ROWS : COLS)

static struct { int x, y, np; const void *in; double complex *out; const void *z0; int n; } calls[MAXCALLS];
static int ncalls;

static double complex mkc(double re, double im) { double complex z; ((double *)&z)[0] = re; ((double *)&z)[1] = im; return z; }

static void vf_rec(int x, int y, int np, const void *in, double complex *out, const void *z0, int n, int cells)
{
    VF_ASSERT(ncalls < MAXCALLS, "C05: at most one kernel call per frequency");
    if (ncalls < MAXCALLS) {
	calls[ncalls].x = x; calls[ncalls].y = y; calls[ncalls].np = np;
	calls[ncalls].in = in; calls[ncalls].out = out; calls[ncalls].z0 = z0; calls[ncalls].n = n;
    }
    for (int i = 0; i < cells; ++i)
	out[i] = mkc(1000.0 * (ncalls + 1) + i, 7.0);	/* tag: (call number, cell) */
    ++ncalls;
}
#include "gen/C05_stubs.h"

static double val(int slot) { double d = VF_D(slot); VF_ASSUME(d == d); return d; }

static int valid_pair(int from, int to)
{
    if (to < 0 || to >= VPT_NTYPES) return 0;
    if (from == to) return 1;
    if (from < VPT_S || from > VPT_B) return 0;
    if (to == VPT_ZIN) return 1;
    if (to < VPT_S) return 0;
    if (to == VPT_T || to == VPT_U || to >= VPT_H) return ROWS == 2 && COLS == 2;
    return ROWS == COLS;
}

void harness(void)
{
    vnadata_t *in = vnadata_alloc(vf_error_fn, NULL);
    vnadata_t *other = vnadata_alloc(vf_error_fn, NULL);
    VF_ASSUME(in != NULL && other != NULL);
    int rc = vnadata_init(in, (vnadata_parameter_type_t)FROM, ROWS, COLS, FREQ);
    VF_ASSERT(rc == 0, "VF: the enumerated input shape is valid for its type");
    double cre[FREQ + 1][ROWS * COLS + 1], fr[FREQ + 1], zr[FREQ + 1][PORTS + 1];
    int slot = 0;
    for (int f = 0; f < FREQ; ++f) {
	fr[f] = val(slot++);
	vnadata_set_frequency(in, f, fr[f]);
	for (int i = 0; i < ROWS * COLS; ++i) {
	    cre[f][i] = val(slot++);
	    vnadata_set_cell(in, f, i / COLS, i % COLS, mkc(cre[f][i], -cre[f][i]));
	}
    }
    for (int p = 0; p < PORTS; ++p) {
	zr[0][p] = val(slot++);
	vnadata_set_z0(in, p, mkc(zr[0][p], 1.0));
	for (int f = 1; f < FREQ; ++f) zr[f][p] = zr[0][p];
    }
    if (FZ) {
	for (int f = 0; f < FREQ; ++f)
	    for (int p = 0; p < PORTS; ++p) {
		zr[f][p] = val(slot++);
		vnadata_set_fz0(in, f, p, mkc(zr[f][p], 1.0));
	    }
    }
    /* the separate output object starts with unrelated content so that a refused call must leave it recognisable */
    rc = vnadata_init(other, VPT_S, 1, 1, 1);
    vnadata_set_cell(other, 0, 0, 0, mkc(42.0, 43.0));
    vnadata_t *out = INPLACE ? in : other;
    vnadata_internal_t *vdip_in = VDP_TO_VDIP(in);
    const double complex *in_data[FREQ + 1];
    for (int f = 0; f < FREQ; ++f) in_data[f] = in->vd_data[f];

    int before = vf_err_count;
    rc = vnadata_convert(in, out, (vnadata_parameter_type_t)TO);
    int ok = valid_pair(FROM, TO);
    VF_ASSERT((rc == 0) == ok, "C05: vnadata_convert accepts exactly the documented type / dimension combinations");
    if (rc != 0) {
	VF_ASSERT(rc == -1 && errno == EINVAL && vf_err_count == before + 1, "C11: a refused conversion is -1/EINVAL with one callback");
	VF_ASSERT(ncalls == 0, "C05: a refused conversion calls no kernel");
	VF_ASSERT(vnadata_get_type(other) == VPT_S && vnadata_get_rows(other) == 1 && vnadata_get_columns(other) == 1 &&
		vnadata_get_frequencies(other) == 1 && creal(vnadata_get_cell(other, 0, 0, 0)) == 42.0,
		"C05: a refused conversion leaves the output object unmodified");
	VF_ASSERT(vnadata_get_type(in) == FROM && vnadata_get_rows(in) == ROWS && vnadata_get_columns(in) == COLS,
		"C05: a refused conversion leaves the input object unmodified");
	VF_REACH("refused");
    } else {
	int to_zin = TO == VPT_ZIN && FROM != VPT_ZIN;
	int orows = to_zin ? 1 : ROWS, ocols = to_zin ? PORTS : COLS;
	VF_ASSERT(vnadata_get_type(out) == TO, "C05: the output has the requested type");
	VF_ASSERT(vnadata_get_rows(out) == orows && vnadata_get_columns(out) == ocols,
		"C05: the output keeps the input dimensions, or is 1 x ports after conversion to input impedances (in place and out of place alike)");
	VF_ASSERT(vnadata_get_frequencies(out) == FREQ, "C05: the output has the input's frequency count");
	VF_ASSERT(vnadata_has_fz0(out) == (FZ != 0), "C05: the impedance mode is carried over");
	if (FROM == TO) {
	    VF_ASSERT(ncalls == 0, "C05: same-type conversion copies without calling a kernel");
	} else {
	    VF_ASSERT(ncalls == FREQ, "C05: exactly one kernel call per frequency");
	}
	for (int f = 0; f < FREQ; ++f) {
	    VF_ASSERT(vnadata_get_frequency(out, f) == fr[f], "C05: frequencies are carried over unchanged");
	    for (int p = 0; p < PORTS; ++p) {
		double complex z = vnadata_get_fz0(out, f, p);
		VF_ASSERT(creal(z) == zr[f][p] && cimag(z) == 1.0, "C05: reference impedances (ordinary or per-frequency) are carried over unchanged");
	    }
	    if (FROM == TO) {
		for (int i = 0; i < ROWS * COLS; ++i) {
		    double complex x = vnadata_get_cell(out, f, i / COLS, i % COLS);
		    VF_ASSERT(creal(x) == cre[f][i] && cimag(x) == -cre[f][i], "C05: same-type conversion copies the data");
		}
	    } else if (f < ncalls && f < MAXCALLS) {
		VF_ASSERT(calls[f].x == FROM && calls[f].y == TO, "C05: the kernel called is vnaconv_<from>to<to> for the object's type and the requested type");
		VF_ASSERT(calls[f].np ? calls[f].n == ROWS : (ROWS == 2 && COLS == 2), "C05: a 2x2-only kernel is used on 2x2 data only; an n-port kernel gets n = rows");
		VF_ASSERT(calls[f].in == (const void *)in_data[f], "C05: call f converts frequency f's input matrix");
		VF_ASSERT(calls[f].out == out->vd_data[f], "C05: call f writes frequency f's output matrix");
		if (calls[f].z0 != NULL) {
		    const double complex *expz = FZ ? vdip_in->vdi_z0_vector_vector[f] : vdip_in->vdi_z0_vector;
		    VF_ASSERT(calls[f].z0 == (const void *)expz, "C05: call f uses frequency f's reference impedances (per-frequency) or the common vector (ordinary)");
		}
		for (int i = 0; i < orows * ocols; ++i) {
		    double complex x = vnadata_get_cell(out, f, i / ocols, i % ocols);
		    VF_ASSERT(creal(x) == 1000.0 * (f + 1) + i, "C05: the output cells are what the kernel for that frequency produced");
		}
	    }
	    if (to_zin) {
		/* representation invariant of a 1 x ports object: cells beyond rows*columns hold the initial value */
		vnadata_internal_t *vdip_out = VDP_TO_VDIP(out);
		for (int i = ocols; i < vdip_out->vdi_m_allocation && i < ROWS * COLS; ++i)
		    VF_ASSERT(creal(out->vd_data[f][i]) == 0.0 && cimag(out->vd_data[f][i]) == 0.0,
			    "C05: after conversion to input impedances the object is a freshly built 1 x ports object (no stale matrix cells behind it)");
	    }
	}
	VF_ASSERT(vf_err_count == before, "C11: a successful conversion does not call the error function");
	VF_REACH("accepted");
    }
    vnadata_free(in);
    vnadata_free(other);
    VF_REACH("end");
}
