/*
 * C16.a / C11.d  The calibration slot table behaves like a table of named calibrations: one inductive step from an
 *        ARBITRARY table state (allocation ALLOC, each slot symbolically empty or holding calibration named 'a'+i)
 *        with a symbolic operation argument:
 *          OP 0  vnacal_add_calibration(name)      name symbolic in {a..e}: existing name => same slot (old object
 *                replaced), new name => lowest free slot, else appended; the RETURNED index is where find / get_name
 *                then see it; every other slot untouched
 *          OP 1  vnacal_delete_calibration(ci)     ci symbolic -1..ALLOC+1: empties exactly that slot, ENOENT otherwise
 *          OP 2  vnacal_find_calibration(name), vnacal_get_calibration_end, vnacal_get_name(ci)
 * Oracle: the present[] / name table in the harness.  Since the pre-state is arbitrary (all 2^ALLOC occupancy patterns),
 * this step covers histories of any length over tables of that allocation.
 */
#include <complex.h>
#include <errno.h>
#include <stdarg.h>
#include <stdlib.h>
#include <string.h>
#include "archdep.h"
#include <stdio.h>
#include "vf.h"
#include "vnaerr.h"
#define VF_STUB_VASPRINTF
#define VF_STUB_ERRFN
#include "vf_stubs.h"
#include "vnacal_new_internal.h"

#ifndef ALLOC
#define ALLOC 3
#endif
#ifndef OP
#define OP 0
#endif

/* property trees of the calibrations are empty here; the tree code is covered by C13 */
int vnaproperty_delete(vnaproperty_t **rootptr, const char *format, ...)
{
    VF_ASSERT(*rootptr == NULL, "VF: calibrations in this harness have no properties");
    return 0;
}

static vnacal_calibration_t *mkcal(vnacal_t *vcp, char name)
{
    vnacal_calibration_t *calp = calloc(1, sizeof(vnacal_calibration_t));
    VF_ASSUME(calp != NULL);
    calp->cal_vcp = vcp;
    if (name != 0) {
	calp->cal_name = malloc(2);
	VF_ASSUME(calp->cal_name != NULL);
	calp->cal_name[0] = name;
	calp->cal_name[1] = '\000';
    }
    return calp;
}

void harness(void)
{
    static vnacal_t vc;
    static vnacal_new_t vn;
    memset(&vc, 0, sizeof(vc));
    memset(&vn, 0, sizeof(vn));
    vc.vc_magic = VC_MAGIC;
    vc.vc_error_fn = vf_error_fn;
    vn.vn_magic = VN_MAGIC;
    vn.vn_vcp = &vc;
    int present[ALLOC + 1];
    vnacal_calibration_t *obj[ALLOC + 1];
    if (ALLOC > 0) {
	vc.vc_calibration_vector = calloc(ALLOC, sizeof(vnacal_calibration_t *));
	VF_ASSUME(vc.vc_calibration_vector != NULL);
    }
    vc.vc_calibration_allocation = ALLOC;
    for (int i = 0; i < ALLOC; ++i) {
	long p;
	VF_RANGE(p, i, 0, 1);
	present[i] = (int)p;
	obj[i] = NULL;
	if (present[i]) {
	    obj[i] = mkcal(&vc, (char)('a' + i));
	    vc.vc_calibration_vector[i] = obj[i];
	}
    }
    long nm, ci;
    VF_RANGE(nm, 8, 'a', 'a' + ALLOC + 1);
    VF_RANGE(ci, 9, -1, ALLOC + 1);
    char name[2] = { (char)nm, 0 };

    if (OP == 0) {
	vn.vn_calibration = mkcal(&vc, 0);
	vnacal_calibration_t *newcal = vn.vn_calibration;
	int exp = -1;
	if (nm - 'a' < ALLOC && present[nm - 'a']) exp = (int)(nm - 'a');
	else {
	    for (int i = 0; i < ALLOC; ++i) if (!present[i]) { exp = i; break; }
	    if (exp == -1) exp = ALLOC;
	}
	int rc = vnacal_add_calibration(&vc, name, &vn);
	VF_ASSERT(rc == exp, "C16.a: add returns the slot chosen by the rule (existing name: its slot; else lowest free slot; else a new one at the end)");
	VF_ASSERT(vn.vn_calibration == NULL, "C16.a: add takes ownership of the solved calibration");
	VF_ASSERT(vnacal_find_calibration(&vc, name) == exp, "C11.d: find sees the calibration at the index add chose");
	if (rc >= 0) {
	    const char *gn = vnacal_get_name(&vc, rc);
	    VF_ASSERT(gn != NULL && gn[0] == (char)nm && gn[1] == '\000', "C11.d: the index add returned is the one get_name honours");
	}
	VF_ASSERT(exp < vc.vc_calibration_allocation && vc.vc_calibration_vector[exp] == newcal, "C16.a: the new calibration sits in the chosen slot");
	for (int i = 0; i < ALLOC; ++i)
	    if (i != exp) VF_ASSERT(vc.vc_calibration_vector[i] == obj[i], "C16.a: add leaves every other slot untouched (no renumbering)");
	for (int i = ALLOC; i < vc.vc_calibration_allocation; ++i)
	    if (i != exp) VF_ASSERT(vc.vc_calibration_vector[i] == NULL, "C16.a: slots created by growth are empty");
	VF_ASSERT(vf_err_count == 0, "C11: successful add does not call the error function");
	if (exp < ALLOC && present[exp]) VF_REACH("replaced"); else if (exp < ALLOC) VF_REACH("free slot"); else VF_REACH("appended");
    } else if (OP == 1) {
	errno = 0;
	int rc = vnacal_delete_calibration(&vc, (int)ci);
	if (ci >= 0 && ci < ALLOC && present[ci]) {
	    VF_ASSERT(rc == 0 && vc.vc_calibration_vector[ci] == NULL, "C16.a: delete empties exactly the given slot");
	    present[ci] = 0; obj[ci] = NULL;
	    VF_REACH("deleted");
	} else {
	    VF_ASSERT(rc == -1 && errno == ENOENT, "C16.a: delete of an empty or out-of-range slot fails with ENOENT");
	    VF_ASSERT(vf_err_count == 0, "C11: delete of a missing slot is a silent query");
	    VF_REACH("refused");
	}
	for (int i = 0; i < ALLOC; ++i)
	    VF_ASSERT(vc.vc_calibration_vector[i] == obj[i], "C16.a: delete does not renumber or touch other slots");
    } else {
	int expf = (nm - 'a' < ALLOC && present[nm - 'a']) ? (int)(nm - 'a') : -1;
	errno = 0;
	int f = vnacal_find_calibration(&vc, name);
	VF_ASSERT(f == expf, "C16.a: find returns the slot holding the name, -1 otherwise");
	if (expf == -1) VF_ASSERT(errno == ENOENT && vf_err_count == 0, "C11: find of a missing name is a silent ENOENT");
	int end = 0;
	for (int i = 0; i < ALLOC; ++i) if (present[i]) end = i + 1;
	VF_ASSERT(vnacal_get_calibration_end(&vc) == end, "C16.a: get_calibration_end is one past the highest live index");
	const char *gn = vnacal_get_name(&vc, (int)ci);
	if (ci >= 0 && ci < ALLOC && present[ci]) { VF_ASSERT(gn != NULL && gn[0] == 'a' + ci, "C16.a: get_name returns the slot's name"); VF_REACH("named"); }
	else { VF_ASSERT(gn == NULL, "C16.a: get_name of an empty / out-of-range slot fails"); VF_REACH("refused"); }
    }
    /* teardown: everything still in the table is released exactly once */
    for (int i = 0; i < vc.vc_calibration_allocation; ++i)
	_vnacal_calibration_free(vc.vc_calibration_vector[i]);
    free(vc.vc_calibration_vector);
    VF_REACH("end");
}
