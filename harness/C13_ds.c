/*
 * C13.d  The list and map containers behind the property tree, one step with SYMBOLIC subscript / key / add flag from an
 *        enumerated concrete pre-state (N elements): list_subtree, list_insert, list_append, list_delete, map_subtree,
 *        map_delete.  Oracle: an abstract sequence / ordered-set model in the harness.  The descriptor parser is bypassed
 *        (C13.a covers it with concrete descriptors), which is what makes symbolic subscripts and keys affordable.
 *        Representation invariant checked after every step: slots beyond the logical length are NULL (list_subtree's
 *        extend path relies on it), the map's order list holds exactly the keys, in insertion order, count matches.
 *        Deleted children must be released (leak check) and no access may leave the vector (CBMC bounds checks).
 */
#include <errno.h>
#include <stdlib.h>
#include <string.h>
#include <stdbool.h>
#include "vf.h"
#include "vf_libc.h"
#if !defined(VF_NATIVE) && !defined(VF_LROUTE)
/* realloc is only used on vectors of pointers in vnaproperty.c: typed model (CBMC's own realloc and zero-memset work
 * on bytes, after which the child pointers are no longer precise: counterexamples then do not replay and the
 * recursive free explodes).  Zero-fills that target such a vector are done element-wise. */
static void *vf_ptrvec[6];
static int vf_ptrvec_n;
static void *vf_realloc_ptrs(void *old, size_t n)
{
    size_t k = n / sizeof(void *);
    void **p = malloc(sizeof(void *) * k);
    VF_ASSUME(p != NULL);
    if (old != NULL) {
	size_t on = __CPROVER_OBJECT_SIZE(old) / sizeof(void *);
	for (size_t i = 0; i < on && i < k; ++i)
	    p[i] = ((void **)old)[i];
	free(old);
    }
    VF_ASSUME(vf_ptrvec_n < 6);
    vf_ptrvec[vf_ptrvec_n++] = p;
    return p;
}
#define realloc(p, n) vf_realloc_ptrs(p, n)
static void *vf_memset(void *p, int c, size_t n)
{
    if (c != 0)
	return p;
    for (int j = 0; j < vf_ptrvec_n; ++j)
	if (__CPROVER_POINTER_OBJECT(p) == __CPROVER_POINTER_OBJECT(vf_ptrvec[j])) {
	    for (size_t i = 0; i < n / sizeof(void *); ++i)
		((void **)p)[i] = NULL;
	    return p;
	}
    return memset(p, 0, n);
}
#define memset(p, c, n) vf_memset(p, c, n)
/* memmove is only used on vectors of node pointers in vnaproperty.c: element-wise model (CBMC's own works on bytes and
 * loses pointer precision, which yields counterexamples that do not replay) */
static void *vf_memmove_ptrs(void *d, const void *s, size_t n)
{
    size_t k = n / sizeof(void *);
    void **dp = d; void *const *sp = s;
    if (dp <= (void **)sp) { for (size_t i = 0; i < k; ++i) dp[i] = sp[i]; }
    else { for (size_t i = k; i > 0; --i) dp[i - 1] = sp[i - 1]; }
    return d;
}
#define memmove(d, s, n) vf_memmove_ptrs(d, s, n)
#endif
#include "vnaproperty.c"
#undef memset
#undef realloc
#undef memmove

#ifndef N
#define N 2
#endif
#ifndef OP
#define OP 0	/* 0 list_subtree  1 list_insert  2 list_append  3 list_delete  4 map_subtree  5 map_delete */
#endif
#define MAXL 12

void harness(void)
{
    long idx, addl, key;
    VF_RANGE(idx, 0, -1, N + 2);
    VF_RANGE(addl, 1, 0, 1);
    VF_RANGE(key, 2, 'a', 'f');
#ifdef KEYC
    key = KEYC;		/* map_delete: a symbolic key makes the recursive free explode; keys are enumerated instead */
#endif
    bool add = addl != 0;

    if (OP <= 3) {
	vnaproperty_t *list = list_alloc();
	VF_ASSUME(list != NULL);
	vnaproperty_t *kids[MAXL];
	int model[MAXL], mlen = N;		/* model: ids of the children, -1 = null */
	for (int i = 0; i < N; ++i) {
	    char txt[2 * VF_STRCAP] = { 'x', 0 };
	    kids[i] = scalar_alloc(txt);
	    VF_ASSUME(kids[i] != NULL);
	    vnaproperty_t **slot = list_append(list);
	    VF_ASSERT(slot != NULL && *slot == NULL, "C13.d: list_append returns a null slot");
	    *slot = kids[i];
	    model[i] = i;
	}
	vnaproperty_list_t *lp = (vnaproperty_list_t *)list;
	vnaproperty_t **res = NULL;
	int rc = 0, exp_ok = 1, deleted = -1;
	errno = 0;
	switch (OP) {
	case 0:
	    res = list_subtree(list, add, (int)idx);
	    if (idx < 0) { exp_ok = 0; VF_ASSERT(res == NULL && errno == EINVAL, "C13.d: negative subscript is EINVAL"); }
	    else if (idx >= mlen && !add) { exp_ok = 0; VF_ASSERT(res == NULL && errno == ENOENT, "C13.d: missing subscript without add is ENOENT"); }
	    else {
		for (int i = mlen; i <= idx; ++i) model[i] = -1;
		if (idx >= mlen) mlen = (int)idx + 1;
		VF_ASSERT(res == &lp->vpl_vector[idx], "C13.d: list_subtree returns the slot of the subscript");
	    }
	    break;
	case 1:
	    res = list_insert(list, (int)idx);
	    if (idx < 0) { exp_ok = 0; VF_ASSERT(res == NULL && errno == EINVAL, "C13.d: negative insert subscript is EINVAL"); }
	    else {
		if (idx >= mlen) { for (int i = mlen; i <= idx; ++i) model[i] = -1; mlen = (int)idx + 1; }
		else { for (int i = mlen; i > idx; --i) model[i] = model[i - 1]; model[idx] = -1; ++mlen; }
		VF_ASSERT(res == &lp->vpl_vector[idx] && *res == NULL, "C13.d: list_insert returns a null slot at the subscript");
	    }
	    break;
	case 2:
	    res = list_append(list);
	    model[mlen++] = -1;
	    VF_ASSERT(res == &lp->vpl_vector[mlen - 1] && *res == NULL, "C13.d: list_append returns a null slot at the end");
	    break;
	case 3:
	    rc = list_delete(list, (int)idx);
	    if (idx < 0) { exp_ok = 0; VF_ASSERT(rc == -1 && errno == EINVAL, "C13.d: negative delete subscript is EINVAL"); }
	    else if (idx >= mlen) { exp_ok = 0; VF_ASSERT(rc == -1 && errno == ENOENT, "C13.d: delete of a missing subscript is ENOENT"); }
	    else {
		VF_ASSERT(rc == 0, "C13.d: delete of an existing subscript succeeds");
		deleted = model[idx];
		for (int i = (int)idx; i + 1 < mlen; ++i) model[i] = model[i + 1];
		--mlen;
	    }
	    break;
	}
	if (exp_ok) VF_REACH("accepted list step"); else VF_REACH("refused list step");
	VF_ASSERT((int)lp->vpl_length == mlen, "C13.d: list length follows the model");
	VF_ASSERT(lp->vpl_length <= lp->vpl_allocation, "C13.d: length never exceeds the allocation");
	for (int i = 0; i < MAXL; ++i) {
	    if (i < (int)lp->vpl_allocation) {
		if (i < mlen)
		    VF_ASSERT(lp->vpl_vector[i] == (model[i] < 0 ? NULL : kids[model[i]]), "C13.d: list slots hold exactly the model's elements in order (delete shifts down, insert shifts up)");
		else
		    VF_ASSERT(lp->vpl_vector[i] == NULL, "C13.d: slots beyond the logical length are NULL");
	    }
	}
	/* release: the children that are still in the list are freed by the harness; a deleted child must already be gone */
	for (int i = 0; i < N; ++i) {
	    if (i != deleted) { free(((vnaproperty_scalar_t *)kids[i])->vps_value); free(kids[i]); }
	}
	free(lp->vpl_vector);
	free(lp);
    } else {
	vnaproperty_t *map = map_alloc();
	VF_ASSUME(map != NULL);
	vnaproperty_map_t *mp = (vnaproperty_map_t *)map;
	static const char names[5] = { 'c', 'a', 'e', 'b', 'd' };	/* insertion order */
	char mkeys[MAXL]; int mn = 0;
	for (int i = 0; i < N; ++i) {
	    char k[2 * VF_STRCAP] = { names[i], 0 };
	    vnaproperty_t **slot = map_subtree(map, true, k);
	    VF_ASSERT(slot != NULL && *slot == NULL, "C13.d: map_subtree(add) of a new key returns a null slot");
	    mkeys[mn++] = names[i];
	}
	char k[2 * VF_STRCAP] = { (char)key, 0 };
	int present = -1;
	for (int i = 0; i < mn; ++i) if (mkeys[i] == (char)key) present = i;
	errno = 0;
	if (OP == 4) {
	    vnaproperty_t **slot = map_subtree(map, add, k);
	    if (present >= 0 || add) {
		VF_ASSERT(slot != NULL, "C13.d: map_subtree finds an existing key / creates a missing one when add is set");
		if (present < 0) mkeys[mn++] = (char)key;
		VF_REACH("accepted map step");
	    } else {
		VF_ASSERT(slot == NULL && errno == ENOENT, "C13.d: map_subtree of a missing key without add is ENOENT");
		VF_REACH("refused map step");
	    }
	} else {
	    int rc = map_delete(map, k);
	    if (present >= 0) {
		VF_ASSERT(rc == 0, "C13.d: map_delete of an existing key succeeds");
		for (int i = present; i + 1 < mn; ++i) mkeys[i] = mkeys[i + 1];
		--mn;
		VF_REACH("accepted map step");
	    } else {
		VF_ASSERT(rc == -1 && errno == ENOENT, "C13.d: map_delete of a missing key is ENOENT");
		VF_REACH("refused map step");
	    }
	}
	VF_ASSERT((int)mp->vpm_count == mn, "C13.d: map count follows the model");
	vnaproperty_map_element_t *e = mp->vpm_order_head;
	for (int i = 0; i < MAXL; ++i) {
	    if (i < mn) {
		VF_ASSERT(e != NULL && e->vme_pair.vmpr_key[0] == mkeys[i] && e->vme_pair.vmpr_key[1] == '\000',
			"C13.d: the order list holds the model's keys in insertion order");
		if (e == NULL) break;
		/* every key on the order list is found through the hash chains */
		char kk[2 * VF_STRCAP] = { mkeys[i], 0 };
		vnaproperty_map_element_t **anchor;
		VF_ASSERT(map_find_anchor(mp, &anchor, kk, crc32c(-1, kk, 1)) && *anchor == e,
			"C13.d: every key on the order list is found through its hash chain");
		e = e->vme_order_next;
	    } else {
		VF_ASSERT(e == NULL, "C13.d: the order list ends after the model's keys");
		break;
	    }
	}
	vnaproperty_free(map);
    }
    VF_REACH("end");
}
