/*
 * C12  A single allocation failure inside a vnadata call yields a clean ENOMEM failure: the K-th allocation made by the
 *      faulted call (OP2 on an object prepared by init(R1,C1,F1) [+ per-frequency mode]) fails.  Enumerated: shapes, the
 *      operation, K.  Symbolic: cell / impedance values.  Checked: the faulted call returns 0, or -1 with errno ENOMEM and
 *      one callback; every getter still works and the logical state is what it was before the call; repeating the call without
 *      the fault succeeds and gives the state of a fault-free run; vnadata_free then leaves nothing allocated (leak check).
 */
#include <complex.h>
#include <errno.h>
#include <math.h>
#include <stdlib.h>
#include <string.h>
#include "vnadata.h"
#define VF_STUB_VASPRINTF
#define VF_STUB_ERRFN
#include "vf_stubs.h"

#ifndef R1
#define R1 2
#define C1 2
#define F1 2
#define FZ 0
#define OP2 0		/* 0 resize(R2,C2,F2)  1 set_fz0(0,0,v)  2 set_z0(0,v)  3 add_frequency  4 init(R2,C2,F2) */
#define R2 2
#define C2 2
#define F2 2
#define K 0
#endif

static long vf_count, vf_fail_at = -1;
static int vf_fired;
int vf_alloc_hook(void)
{
    if (vf_count++ == vf_fail_at) { vf_fired = 1; errno = ENOMEM; return 1; }
    return 0;
}

static double complex mkc(double re, double im) { double complex z; ((double *)&z)[0] = re; ((double *)&z)[1] = im; return z; }

static int do_op(vnadata_t *vdp, double v)
{
    switch (OP2) {
    case 0: return vnadata_resize(vdp, R2 == C2 ? VPT_S : VPT_UNDEF, R2, C2, F2);
    case 1: return vnadata_set_fz0(vdp, 0, 0, mkc(v, 1.0));
    case 2: return vnadata_set_z0(vdp, 0, mkc(v, 1.0));
    case 3: return vnadata_add_frequency(vdp, 1.0e9);
    default: return vnadata_init(vdp, R2 == C2 ? VPT_S : VPT_UNDEF, R2, C2, F2);
    }
}

void harness(void)
{
    vnadata_t *vdp = vnadata_alloc(vf_error_fn, NULL);
    VF_ASSUME(vdp != NULL);
    double v = VF_D(0), w = VF_D(1);
    VF_ASSUME(v == v && w == w);
    int rc = vnadata_init(vdp, R1 == C1 ? VPT_S : VPT_UNDEF, R1, C1, F1);
    VF_ASSERT(rc == 0, "VF: preparation succeeds");
    if (R1 > 0 && C1 > 0 && F1 > 0) vnadata_set_cell(vdp, 0, 0, 0, mkc(w, -w));
    if (FZ && F1 > 0 && (R1 > 0 || C1 > 0)) { rc = vnadata_set_fz0(vdp, 0, 0, mkc(w, 2.0)); VF_ASSERT(rc == 0, "VF: preparation succeeds"); }
    int rows0 = vnadata_get_rows(vdp), cols0 = vnadata_get_columns(vdp), f0 = vnadata_get_frequencies(vdp), fz0 = vnadata_has_fz0(vdp);

    int before = vf_err_count;
    vf_count = 0; vf_fail_at = K;
    rc = do_op(vdp, v);
    vf_fail_at = -1;
    if (vf_fired) {
	VF_ASSERT(rc == 0 || (rc == -1 && errno == ENOMEM), "C12: a call in which an allocation failed succeeds or fails with -1 / ENOMEM");
	if (rc == -1) {
	    VF_ASSERT(vf_err_count == before + 1, "C12: the allocation failure is reported once through the error function");
	    VF_ASSERT(vnadata_get_rows(vdp) == rows0 && vnadata_get_columns(vdp) == cols0 && vnadata_get_frequencies(vdp) == f0,
		    "C12: the failed call leaves the logical dimensions as they were");
	    if (OP2 != 4 && R1 > 0 && C1 > 0 && F1 > 0) {
		double complex x = vnadata_get_cell(vdp, 0, 0, 0);
		VF_ASSERT(creal(x) == w && cimag(x) == -w, "C12: the failed call leaves the data as they were");
	    }
	    VF_REACH("faulted call failed cleanly");
	    /* repeat without the fault */
	    rc = do_op(vdp, v);
	    VF_ASSERT(rc == 0, "C12: repeating the call without the fault succeeds");
	}
    } else {
	VF_ASSERT(rc == 0, "C12: the fault-free call succeeds");
	VF_REACH("fault index beyond the call's allocations");
    }
    /* state of the fault-free run */
    if (OP2 == 0 || OP2 == 4) {
	VF_ASSERT(vnadata_get_rows(vdp) == R2 && vnadata_get_columns(vdp) == C2 && vnadata_get_frequencies(vdp) == F2, "C12: after the (repeated) resize the object has the requested dimensions");
	for (int f = 0; f < F2; ++f)
	    for (int p = 0; p < (R2 > C2 ? R2 : C2); ++p) {
		double complex z = vnadata_get_fz0(vdp, f, p);
		if (f >= F1 || p >= (R1 > C1 ? R1 : C1) || OP2 == 4)
		    VF_ASSERT(creal(z) == 50.0 && cimag(z) == 0.0, "C12: impedances exposed by the (repeated) call have their initial value");
	    }
	for (int f = 0; f < F2; ++f)
	    for (int i = 0; i < R2 * C2; ++i) {
		double complex x = vnadata_get_cell(vdp, f, i / C2, i % C2);
		if (f >= F1 || i >= R1 * C1 || OP2 == 4)
		    VF_ASSERT(creal(x) == 0.0 && cimag(x) == 0.0, "C12: cells exposed by the (repeated) call have their initial value");
	    }
    } else if (OP2 == 1) {
	double complex z = vnadata_get_fz0(vdp, 0, 0);
	VF_ASSERT(vnadata_has_fz0(vdp) && creal(z) == v && cimag(z) == 1.0, "C12: after the (repeated) set_fz0 the value is stored");
    } else if (OP2 == 2) {
	double complex z = vnadata_get_z0(vdp, 0);
	VF_ASSERT(!vnadata_has_fz0(vdp) && creal(z) == v && cimag(z) == 1.0, "C12: after the (repeated) set_z0 the value is stored");
    } else if (OP2 == 3) {
	VF_ASSERT(vnadata_get_frequencies(vdp) == f0 + 1 && vnadata_get_frequency(vdp, f0) == 1.0e9, "C12: after the (repeated) add_frequency the frequency is appended");
    }
    vnadata_free(vdp);
    VF_REACH("end");
}
