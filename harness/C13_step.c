/*
 * C13.a  The property tree refines an abstract document model: from an enumerated small tree (SHAPE), one operation
 *        (OP) with a descriptor of an enumerated form (FORM) whose keys, subscripts and value are symbolic, then every
 *        observer (type, count, get, keys, get_subtree) on a symbolic path agrees with the model; the tree can then
 *        be deleted without leaking.  Also serves C03 (memory safety/leaks) and C11 (refused => unchanged).
 *
 * Oracle: the abstract document below (nested maps / lists / scalars / nulls in a fixed node pool), written from
 * vnaproperty(3).  It does not share code with vnaproperty.c.
 */
#include <errno.h>
#include <stdlib.h>
#include <string.h>
#include <stdbool.h>
#include "vf.h"
#include "vf_libc.h"
#if !defined(VF_NATIVE) && !defined(VF_LROUTE)
/* (native CBMC front end only; the ll2c route lowers these calls to typed code itself)
 * the library overwrites freed nodes with 'X' bytes (a debugging aid); CBMC handles a byte-fill of a struct of pointers
 * through a symbolic pointer at prohibitive cost, so the fill is skipped in the solver build (zero-fills are kept) */
/* realloc is only used on vectors of pointers in vnaproperty.c: typed model (CBMC's own realloc and zero-memset work
 * on bytes, after which the child pointers are no longer precise: counterexamples then do not replay and the
 * recursive free explodes).  Zero-fills that target such a vector are done element-wise. */
static void *vf_ptrvec[6];
static int vf_ptrvec_n;
static void *vf_realloc_ptrs(void *old, size_t n)
{
    size_t k = n / sizeof(void *);
    void **p = malloc(sizeof(void *) * k);
    VF_ASSUME(p != NULL);
    if (old != NULL) {
	size_t on = __CPROVER_OBJECT_SIZE(old) / sizeof(void *);
	for (size_t i = 0; i < on && i < k; ++i)
	    p[i] = ((void **)old)[i];
	free(old);
    }
    VF_ASSUME(vf_ptrvec_n < 6);
    vf_ptrvec[vf_ptrvec_n++] = p;
    return p;
}
#define realloc(p, n) vf_realloc_ptrs(p, n)
static void *vf_memset(void *p, int c, size_t n)
{
    if (c != 0)
	return p;
    for (int j = 0; j < vf_ptrvec_n; ++j)
	if (__CPROVER_POINTER_OBJECT(p) == __CPROVER_POINTER_OBJECT(vf_ptrvec[j])) {
	    for (size_t i = 0; i < n / sizeof(void *); ++i)
		((void **)p)[i] = NULL;
	    return p;
	}
    return memset(p, 0, n);
}
#define memset(p, c, n) vf_memset(p, c, n)
/* memmove is only used on vectors of node pointers in vnaproperty.c: element-wise model (CBMC's own works on bytes and
 * loses pointer precision, which yields counterexamples that do not replay) */
static void *vf_memmove_ptrs(void *d, const void *s, size_t n)
{
    size_t k = n / sizeof(void *);
    void **dp = d; void *const *sp = s;
    if (dp <= (void **)sp) { for (size_t i = 0; i < k; ++i) dp[i] = sp[i]; }
    else { for (size_t i = k; i > 0; --i) dp[i - 1] = sp[i - 1]; }
    return d;
}
#define memmove(d, s, n) vf_memmove_ptrs(d, s, n)
#endif
#include "vnaproperty.c"
#undef memset
#undef memmove
#undef realloc

#ifndef SHAPE
#define SHAPE 0
#endif
#ifndef OP
#define OP 0		/* 0 set =v, 1 set #, 2 delete, 3 set_subtree, 4 set without = or #, 5 observers only */
#endif
#ifndef FORM
#define FORM 0
#endif

/* ------------------------------------------------------------------ abstract document */
#define MAXN 24
#define MAXCH 6
enum { KS = 1, KM, KL };
struct mn { int kind; char sv; int n; int ch[MAXCH]; char key[MAXCH]; };
static struct mn pool[MAXN];
static int npool;
static int m_root = -1;

enum { C_KEY, C_IDX, C_INS, C_APP, C_MAP, C_LIST, C_DOT };
struct comp { int t; char k; int i; };

static int m_new(int kind)
{
    VF_ASSUME(npool < MAXN);
    pool[npool].kind = kind;
    pool[npool].n = 0;
    pool[npool].sv = 0;
    return npool++;
}

static int *m_descend(const struct comp *cs, int nc, bool set, int *err, int *coll)
{
    int *anchor = &m_root;
    *coll = -1;
    for (int i = 0; i < nc; ++i) {
	struct comp c = cs[i];
	*coll = -1;
	if (c.t == C_DOT)
	    break;
	int node = *anchor;
	if (c.t == C_KEY || c.t == C_MAP) {
	    if (node == -1) {
		if (!set) { *err = ENOENT; return NULL; }
		node = m_new(KM); *anchor = node;
	    } else if (pool[node].kind != KM) {
		if (!set) { *err = EINVAL; return NULL; }
		node = m_new(KM); *anchor = node;
	    }
	    if (c.t == C_MAP)
		break;
	    *coll = node;
	    int j;
	    for (j = 0; j < pool[node].n; ++j)
		if (pool[node].key[j] == c.k)
		    break;
	    if (j == pool[node].n) {
		if (!set) { *err = ENOENT; return NULL; }
		VF_ASSUME(j < MAXCH);
		pool[node].key[j] = c.k; pool[node].ch[j] = -1; pool[node].n = j + 1;
	    }
	    anchor = &pool[node].ch[j];
	} else {
	    if (node == -1) {
		if (!set) { *err = ENOENT; return NULL; }
		node = m_new(KL); *anchor = node;
	    } else if (pool[node].kind != KL) {
		if (!set) { *err = EINVAL; return NULL; }
		node = m_new(KL); *anchor = node;
	    }
	    if (c.t == C_LIST)
		break;
	    if ((c.t == C_INS || c.t == C_APP) && !set) { *err = EINVAL; return NULL; }
	    *coll = node;
	    int idx = c.t == C_APP ? pool[node].n : c.i;
	    if (idx >= pool[node].n) {
		if (!set) { *err = ENOENT; return NULL; }
		VF_ASSUME(idx < MAXCH);
		for (int j = pool[node].n; j <= idx; ++j) pool[node].ch[j] = -1;
		pool[node].n = idx + 1;
	    } else if (c.t == C_INS) {
		VF_ASSUME(pool[node].n < MAXCH);
		for (int j = pool[node].n; j > idx; --j) pool[node].ch[j] = pool[node].ch[j - 1];
		pool[node].ch[idx] = -1;
		pool[node].n++;
	    }
	    anchor = &pool[node].ch[idx];
	}
    }
    return anchor;
}

/* documented outcome of set "<path>=v" / "<path>#": 0 or -1 with errno */
static int m_set(const struct comp *cs, int nc, bool null, char v)
{
    int err = 0, coll;
    if (cs[nc - 1].t == C_MAP || cs[nc - 1].t == C_LIST)
	return EINVAL;
    int *anchor = m_descend(cs, nc, true, &err, &coll);
    if (anchor == NULL)
	return err;
    if (null) *anchor = -1;
    else { int s = m_new(KS); pool[s].sv = v; *anchor = s; }
    return 0;
}

static int m_delete(const struct comp *cs, int nc)
{
    int err = 0, coll;
    int *anchor = m_descend(cs, nc, false, &err, &coll);
    if (anchor == NULL)
	return err;
    struct comp t = cs[nc - 1];
    if (t.t == C_KEY || t.t == C_IDX) {
	struct mn *p = &pool[coll];
	int j = (int)(anchor - p->ch);
	for (; j + 1 < p->n; ++j) { p->ch[j] = p->ch[j + 1]; p->key[j] = p->key[j + 1]; }
	p->n--;
    } else {
	*anchor = -1;
    }
    return 0;
}

/* ------------------------------------------------------------------ descriptor construction */
static int emit(char *buf, int pos, const struct comp *cs, int nc)
{
    for (int i = 0; i < nc; ++i) {
	switch (cs[i].t) {
	case C_KEY: if (i > 0) buf[pos++] = '.'; buf[pos++] = cs[i].k; break;
	case C_IDX: buf[pos++] = '['; buf[pos++] = (char)('0' + cs[i].i); buf[pos++] = ']'; break;
	case C_INS: buf[pos++] = '['; buf[pos++] = (char)('0' + cs[i].i); buf[pos++] = '+'; buf[pos++] = ']'; break;
	case C_APP: buf[pos++] = '['; buf[pos++] = '+'; buf[pos++] = ']'; break;
	case C_MAP: buf[pos++] = '{'; buf[pos++] = '}'; break;
	case C_LIST: buf[pos++] = '['; buf[pos++] = ']'; break;
	case C_DOT: buf[pos++] = '.'; break;
	}
    }
    buf[pos] = '\000';
    return pos;
}

/* the descriptor forms (component kinds are concrete per obligation; keys and subscripts are symbolic) */
static const int forms[][4] = {
    /*  0 */ { 1, C_KEY },
    /*  1 */ { 2, C_KEY, C_KEY },
    /*  2 */ { 2, C_KEY, C_IDX },
    /*  3 */ { 1, C_IDX },
    /*  4 */ { 1, C_INS },
    /*  5 */ { 1, C_APP },
    /*  6 */ { 1, C_LIST },
    /*  7 */ { 1, C_MAP },
    /*  8 */ { 1, C_DOT },
    /*  9 */ { 2, C_KEY, C_DOT },
    /* 10 */ { 2, C_IDX, C_DOT },
    /* 11 */ { 2, C_KEY, C_MAP },
    /* 12 */ { 2, C_KEY, C_LIST },
    /* 13 */ { 2, C_IDX, C_KEY },
    /* 14 */ { 2, C_IDX, C_IDX },
    /* 15 */ { 2, C_KEY, C_INS },
    /* 16 */ { 2, C_KEY, C_APP },
    /* 17 */ { 2, C_IDX, C_INS },
};

/*
 * Keys and subscripts are enumerated by the runner (K1,K2 in a..c; I1,I2 in 0..3): a symbolic byte that reaches the
 * scanner makes CBMC's symbolic execution of scan/parse/recursive free explode (measured: no verdict in 300 s for ONE
 * symbolic key byte), so descriptors are concrete here; what the solver quantifies over in this harness is the scalar
 * value byte and the observation selector.  Symbolic keys / subscripts are covered on the internal map_* / list_*
 * functions (C13_ds.c) and symbolic descriptor bytes on scan/quote_key (C13_scan.c).
 */
#ifndef K1
#define K1 'a'
#define K2 'b'
#define I1 0
#define I2 1
#endif
static void make_comps(struct comp *cs, int *nc, int form, const char *keys, const int *idx)
{
    *nc = forms[form][0];
    for (int i = 0; i < *nc; ++i) {
	cs[i].t = forms[form][1 + i];
	cs[i].k = keys[i];
	cs[i].i = idx[i];
    }
}

/* ------------------------------------------------------------------ concrete pre-state shapes */
static vnaproperty_t *root;

static void both_set(const char *path_and_value, const struct comp *cs, int nc, bool null, char v)
{
    char d[2 * VF_STRCAP] = { 0 };
    strcpy(d, path_and_value);
    int rc = vnaproperty_set(&root, d);
    int e = m_set(cs, nc, null, v);
    VF_ASSERT(rc == 0 && e == 0, "C13.a: building the pre-state succeeds in tree and model");
}

static void build_shape(void)
{
    struct comp a = { C_KEY, 'a', 0 }, b = { C_KEY, 'b', 0 }, i0 = { C_IDX, 0, 0 }, i1 = { C_IDX, 0, 1 }, i2 = { C_IDX, 0, 2 };
    struct comp dot = { C_DOT, 0, 0 };
    struct comp p[3];
    switch (SHAPE) {
    case 0:	/* empty */
	break;
    case 1:	/* {a: x} */
	p[0] = a; both_set("a=x", p, 1, false, 'x');
	break;
    case 2:	/* {a: x, b: y} */
	p[0] = a; both_set("a=x", p, 1, false, 'x');
	p[0] = b; both_set("b=y", p, 1, false, 'y');
	break;
    case 3:	/* [x, y] */
	p[0] = i0; both_set("[0]=x", p, 1, false, 'x');
	p[0] = i1; both_set("[1]=y", p, 1, false, 'y');
	break;
    case 4:	/* {a: {b: x}} */
	p[0] = a; p[1] = b; both_set("a.b=x", p, 2, false, 'x');
	break;
    case 5:	/* {a: [x, y]} */
	p[0] = a; p[1] = i0; both_set("a[0]=x", p, 2, false, 'x');
	p[0] = a; p[1] = i1; both_set("a[1]=y", p, 2, false, 'y');
	break;
    case 6:	/* [{a: x}, y] */
	p[0] = i0; p[1] = a; both_set("[0].a=x", p, 2, false, 'x');
	p[0] = i1; both_set("[1]=y", p, 1, false, 'y');
	break;
    case 7:	/* scalar root */
	p[0] = dot; both_set(".=x", p, 1, false, 'x');
	break;
    case 8:	/* {a: null, b: y} */
	p[0] = a; both_set("a#", p, 1, true, 0);
	p[0] = b; both_set("b=y", p, 1, false, 'y');
	break;
    case 9:	/* [x, null, y] */
	p[0] = i0; both_set("[0]=x", p, 1, false, 'x');
	p[0] = i2; both_set("[2]=y", p, 1, false, 'y');
	break;
    case 10:	/* [[x], y] */
	p[0] = i0; p[1] = i0; both_set("[0][0]=x", p, 2, false, 'x');
	p[0] = i1; both_set("[1]=y", p, 1, false, 'y');
	break;
    case 11:	/* {b: y, a: x}  (insertion order b, a) */
	p[0] = b; both_set("b=y", p, 1, false, 'y');
	p[0] = a; both_set("a=x", p, 1, false, 'x');
	break;
    }
}

/* ------------------------------------------------------------------ observers */
static void observe_one(int oform, char ok1, char ok2, int oi1, int oi2)
{
    struct comp cs[2];
    int nc, err = 0, coll;
    char d[2 * VF_STRCAP] = { 0 };
    const char okeys[2] = { ok1, ok2 };
    const int oidx[2] = { oi1, oi2 };
    make_comps(cs, &nc, oform, okeys, oidx);
    emit(d, 0, cs, nc);
    int *anchor = m_descend(cs, nc, false, &err, &coll);	/* non-modifying in the model by construction (set=false) */
    int node = anchor != NULL ? *anchor : -1;

    errno = 0;
    int t = vnaproperty_type(root, d);
    if (anchor == NULL) {
	VF_ASSERT(t == -1 && errno == err, "C13.a: type of a path the model does not have fails with the documented errno (ENOENT missing / EINVAL mismatch)");
    } else if (node == -1) {
	VF_ASSERT(t == -1, "C13.a: type of a null element is -1");
    } else {
	VF_ASSERT(t == (pool[node].kind == KS ? 's' : pool[node].kind == KM ? 'm' : 'l'), "C13.a: type agrees with the model");
	VF_REACH("observed existing node");
    }
    errno = 0;
    int n = vnaproperty_count(root, d);
    if (anchor != NULL && node != -1 && pool[node].kind != KS)
	VF_ASSERT(n == pool[node].n, "C13.a: count agrees with the model");
    else
	VF_ASSERT(n == -1, "C13.a: count fails where the model has no collection");
    if (anchor != NULL && node != -1 && pool[node].kind == KS)
	VF_ASSERT(errno == EINVAL, "C13.a: count of a scalar fails with EINVAL");
    errno = 0;
    const char *g = vnaproperty_get(root, d);
    if (anchor != NULL && node != -1 && pool[node].kind == KS) {
	VF_ASSERT(g != NULL && g[0] == pool[node].sv && g[1] == '\000', "C13.a: get returns the scalar the model holds");
	VF_REACH("observed scalar");
    } else {
	VF_ASSERT(g == NULL, "C13.a: get fails where the model has no scalar");
	if (anchor != NULL && node != -1)
	    VF_ASSERT(errno == EINVAL, "C13.a: get of a map or list fails with EINVAL");
    }
    if (anchor == NULL)
	return;
    errno = 0;
    const char **keys = vnaproperty_keys(root, d);
    if (anchor != NULL && node != -1 && pool[node].kind == KM) {
	VF_ASSERT(keys != NULL, "C13.a: keys succeeds on a map");
	if (keys != NULL) {
	    for (int j = 0; j < MAXCH; ++j) {
		if (j < pool[node].n)
		    VF_ASSERT(keys[j] != NULL && keys[j][0] == pool[node].key[j] && keys[j][1] == '\000',
			    "C13.a: keys returns the model's keys in insertion order");
		else {
		    VF_ASSERT(keys[j] == NULL, "C13.a: keys vector ends after the model's keys");
		    break;
		}
	    }
	    VF_REACH("observed map keys");
	}
    } else {
	VF_ASSERT(keys == NULL, "C13.a: keys fails where the model has no map");
    }
    free((void *)keys);
    errno = 0;
    vnaproperty_t *sub = vnaproperty_get_subtree(root, d);
    if (anchor != NULL && node != -1)
	VF_ASSERT(sub != NULL, "C13.a: get_subtree returns the subtree the model has");
    else
	VF_ASSERT(sub == NULL, "C13.a: get_subtree returns NULL for null or missing elements");
    if (anchor != NULL && node == -1)
	VF_ASSERT(errno == 0, "C13.a: get_subtree of a null element leaves errno 0 (documented way to tell empty from error)");
    if (anchor == NULL)
	VF_ASSERT(errno == err, "C13.a: get_subtree of a missing/mismatching path sets the documented errno");
}

void harness(void)
{
    struct comp cs[3];
    int nc;
    char d[2 * VF_STRCAP] = { 0 };
    const char keys[2] = { K1, K2 };
    const int idx[2] = { I1, I2 };
    build_shape();

    make_comps(cs, &nc, FORM, keys, idx);
    int pos = emit(d, 0, cs, nc);
    long v;
    VF_RANGE(v, 8, 'x', 'z');
    int rc, exp;
    if (OP == 0) {			/* set path=v */
	d[pos++] = '='; d[pos++] = (char)v; d[pos] = '\000';
	errno = 0;
	rc = vnaproperty_set(&root, d);
	exp = m_set(cs, nc, false, (char)v);
	VF_ASSERT((rc == 0) == (exp == 0), "C13.a: set succeeds exactly when the model accepts the descriptor");
	if (exp != 0) VF_ASSERT(errno == exp, "C13.a: refused set reports the documented errno");
    } else if (OP == 1) {		/* set path# */
	d[pos++] = '#'; d[pos] = '\000';
	errno = 0;
	rc = vnaproperty_set(&root, d);
	exp = m_set(cs, nc, true, 0);
	VF_ASSERT((rc == 0) == (exp == 0), "C13.a: set-null succeeds exactly when the model accepts the descriptor");
	if (exp != 0) VF_ASSERT(errno == exp, "C13.a: refused set-null reports the documented errno");
    } else if (OP == 2) {		/* delete */
	errno = 0;
	rc = vnaproperty_delete(&root, d);
	exp = m_delete(cs, nc);
	VF_ASSERT((rc == 0) == (exp == 0), "C13.a: delete succeeds exactly when the model has the element");
	if (exp != 0) VF_ASSERT(errno == exp, "C13.a: refused delete reports the documented errno (ENOENT missing / EINVAL mismatch or insert/append form)");
    } else if (OP == 3) {		/* set_subtree */
	int err = 0, coll;
	errno = 0;
	vnaproperty_t **sp = vnaproperty_set_subtree(&root, d);
	int *anchor = m_descend(cs, nc, true, &err, &coll);
	VF_ASSERT((sp != NULL) == (anchor != NULL), "C13.a: set_subtree succeeds exactly when the model can conform the tree");
	if (sp != NULL && anchor != NULL)
	    VF_ASSERT((*sp != NULL) == (*anchor != -1), "C13.a: set_subtree returns the address of the model's element");
    } else if (OP == 6) {		/* non-modifying calls with trailing tokens are refused with EINVAL, not a crash */
	d[pos++] = '='; d[pos++] = (char)v; d[pos] = '\000';
	errno = 0;
	vnaproperty_t *sub = vnaproperty_get_subtree(root, d);
	VF_ASSERT(sub == NULL && (errno == EINVAL || errno == ENOENT), "C13.b: get_subtree with trailing tokens fails (EINVAL, or ENOENT when the path does not exist either)");
	errno = 0;
	VF_ASSERT(vnaproperty_type(root, d) == -1 && (errno == EINVAL || errno == ENOENT), "C13.b: type with trailing tokens fails (EINVAL / ENOENT)");
	errno = 0;
	VF_ASSERT(vnaproperty_delete(&root, d) == -1 && (errno == EINVAL || errno == ENOENT), "C13.b: delete with trailing tokens fails (EINVAL / ENOENT) and deletes nothing");
    } else if (OP == 4) {		/* set with neither =v nor # : malformed, must be refused and change nothing */
	errno = 0;
	rc = vnaproperty_set(&root, d);
	VF_ASSERT(rc == -1 && errno == EINVAL, "C13.a: set without '=' or '#' is refused with EINVAL");
    }
    VF_REACH("operation done");
#ifndef NOOBS
    /* every observer on 12 concrete paths covering all existing and several missing elements of the bounded trees */
    static const struct { int f; char k1, k2; int i1, i2; } paths[] = {
	{ 8, 0, 0, 0, 0 }, { 0, 'a', 0, 0, 0 }, { 0, 'b', 0, 0, 0 }, { 0, 'c', 0, 0, 0 },
	{ 3, 0, 0, 0, 0 }, { 3, 0, 0, 1, 0 }, { 3, 0, 0, 2, 0 },
	{ 1, 'a', 'b', 0, 0 }, { 2, 'a', 0, 0, 0 }, { 2, 'a', 0, 0, 1 },
	{ 13, 0, 'a', 0, 0 }, { 14, 0, 0, 0, 0 },
    };
    for (int i = 0; i < (int)(sizeof(paths) / sizeof(paths[0])); ++i)
	observe_one(paths[i].f, paths[i].k1, paths[i].k2, paths[i].i1, paths[i].i2);
#endif
    errno = 0;
    { char dd[2 * VF_STRCAP] = { '.', 0 }; rc = vnaproperty_delete(&root, dd); }
    VF_ASSERT(rc == 0 && root == NULL, "C13.a: delete of '.' empties the tree and clears the root pointer");
    VF_REACH("end");
}
