/*
 * C18.a  Measurement-error weights belong to their equations.  _vnacal_new_solve_calc_weights is run on a hand-built solve state with
 *        NSYS systems (UE14-like column systems) holding EQ0 / EQ1 equations, each equation pointing at its own measurement cell with a SYMBOLIC
 *        measured value; noise floor and tracking error symbolic.  Oracle: weight of the e-th equation in system-major order (the order every
 *        consumer - solve_simple, solve_auto, calc_pvalue - walks the equations in) is 1/sqrt(nf^2 + tr^2 |m_e|^2) of THAT equation's cell.
 *        The multiplications are uninterpreted functions (uf mode): the check is pure data flow and therefore bit-exact.
 */
#include <complex.h>
#include <errno.h>
#include <math.h>
#include <stdarg.h>
#include <stdlib.h>
#include <string.h>
#include "archdep.h"
#include <stdio.h>
#include "vf.h"
#include "vnaerr.h"
#define VF_STUB_VASPRINTF
#define VF_STUB_ERRFN
#include "vf_stubs.h"
#include "vnacal_new_internal.h"
#include "vnacommon_internal.h"

#ifndef EQ0
#define EQ0 2
#define EQ1 1
#endif
#define NEQ (EQ0 + EQ1)

static double complex mkc(double re, double im) { double complex z; ((double *)&z)[0] = re; ((double *)&z)[1] = im; return z; }

void harness(void)
{
    static vnacal_t vc;
    static vnacal_new_t vn;
    static vnacal_new_solve_state_t ss;
    static vnacal_new_system_t sys[2];
    static vnacal_new_equation_t eq[NEQ];
    static vnacal_new_measurement_t meas[NEQ];
    static vnacal_new_msv_matrices_t msv[NEQ];
    static vnacal_new_m_error_t merr[1];
    static double complex mcell[NEQ][4];
    memset(&vc, 0, sizeof(vc)); memset(&vn, 0, sizeof(vn)); memset(&ss, 0, sizeof(ss));
    vc.vc_magic = VC_MAGIC; vc.vc_error_fn = vf_error_fn;
    vn.vn_magic = VN_MAGIC; vn.vn_vcp = &vc;
    _vnacal_layout(&vn.vn_layout, VNACAL_UE14, 2, 2);
    vn.vn_systems = 2; vn.vn_system_vector = sys; vn.vn_equations = NEQ;
    vn.vn_m_error_vector = merr;
    double nf = VF_D(0), tr = VF_D(1);
    merr[0].vnme_sigma_nf = nf; merr[0].vnme_sigma_tr = tr;
    double re[NEQ], im[NEQ]; int cell[NEQ];
    for (int e = 0; e < NEQ; ++e) {
	int s = e < EQ0 ? 0 : 1;
	re[e] = VF_D(2 + 2 * e); im[e] = VF_D(3 + 2 * e);
	meas[e].vnm_index = e; meas[e].vnm_vnp = &vn;
	eq[e].vne_vnmp = &meas[e];
	eq[e].vne_row = e & 1; eq[e].vne_column = s;		/* column systems: system s holds the equations of measurement column s */
	cell[e] = eq[e].vne_row * 2 + eq[e].vne_column;
	for (int c = 0; c < 4; ++c) mcell[e][c] = mkc(7.0 + c, 9.0);	/* other cells: unrelated values */
	mcell[e][cell[e]] = mkc(re[e], im[e]);
	msv[e].vnmm_vnmp = &meas[e]; msv[e].vnmm_m_matrix = mcell[e];
	eq[e].vne_next = NULL;
    }
    for (int e = 0; e + 1 < EQ0; ++e) eq[e].vne_next = &eq[e + 1];
    for (int e = EQ0; e + 1 < NEQ; ++e) eq[e].vne_next = &eq[e + 1];
    sys[0].vns_equation_count = EQ0; sys[0].vns_equation_list = EQ0 > 0 ? &eq[0] : NULL;
    sys[1].vns_equation_count = EQ1; sys[1].vns_equation_list = EQ1 > 0 ? &eq[EQ0] : NULL;
    ss.vnss_vnp = &vn; ss.vnss_findex = 0; ss.vnss_msv_matrices = msv;

    double *w = _vnacal_new_solve_calc_weights(&ss);
    VF_ASSERT(w != NULL, "C18.a: the weight vector is produced");
    if (w != NULL) {
	for (int e = 0; e < NEQ; ++e) {
	    /* same operation order as documented: |m|^2, times tr^2, plus nf^2 (separate statements: no fused multiply-add) */
	    double w2 = _vnacommon_cabs2(mkc(re[e], im[e]));
	    w2 *= tr * tr;
	    w2 += nf * nf;
	    double expw = 1.0 / sqrt(w2);
	    VF_ASSERT(w[e] == expw || (w[e] != w[e] && expw != expw),
		    "C18.a: the weight at (system-major) equation index e is 1/sqrt(nf^2 + tr^2 |m|^2) of THAT equation's measurement cell");
	}
	free(w);
    }
    VF_REACH("end");
}
